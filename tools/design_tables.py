#!/usr/bin/env python3
"""Fills the SEEDTABLE / OWNTABLE placeholders (or refreshes the generated blocks) in DESIGN.md from
/verif/seeded/*/meta.json, the sweep logs and /verif/seeded/own_catalogue.jsonl."""
import json, glob, os, re
V="/verif"
def sweep(path):
    res={}
    if not os.path.exists(path): return res
    for l in open(path):
        parts=[p.strip() for p in l.split("|")]
        if len(parts)<4: continue
        m=re.search(r"CAUGHT BY:(.*)", parts[3])
        res[parts[0]]=(parts[1].replace("own-check:",""), m.group(1).split() if m else [])
    return res
r1=sweep(f"{V}/seeded/sweep_round1.log")
r2=sweep(f"{V}/seeded/sweep_round2_baseline.log")
r3=sweep(f"{V}/seeded/sweep_round3_baseline.log")
r4=sweep(f"{V}/seeded/sweep_round4_baseline.log")
r5=sweep(f"{V}/seeded/sweep_round5_baseline.log")
r6=sweep(f"{V}/seeded/sweep_round6_baseline.log")
r7=sweep(f"{V}/seeded/sweep_round7_baseline.log")
r8=sweep(f"{V}/seeded/sweep_round8_baseline.log")
r9=sweep(f"{V}/seeded/sweep_round9_baseline.log")
r10=sweep(f"{V}/seeded/sweep_round10_baseline.log")
fin=sweep(f"{V}/seeded/sweep_final.log")
rows=[]
for d in sorted(glob.glob(f"{V}/seeded/C[0-9][0-9][a-z]")):
    n=os.path.basename(d)
    m=json.load(open(f"{d}/meta.json"))
    what=(m.get("what_breaks") or "").replace("\n"," ").replace("|","/")
    if len(what)>230: what=what[:227]+"..."
    files=", ".join(m.get("files_changed",[]))
    first=r1.get(n) if n[-1] in "ab" else (r2.get(n) if n[-1] in "cd" else (r3.get(n) if n[-1] in "ef" else (r4.get(n) if n[-1] in "gh" else (r5.get(n) if n[-1] in "ij" else (r6.get(n) if n[-1] in "kl" else (r7.get(n) if n[-1] in "mn" else (r8.get(n) if n[-1] in "op" else (r9.get(n) if n[-1] in "qr" else r10.get(n)))))))))
    last=fin.get(n)
    f1 = "—" if first is None else ("yes" if first[0]=="caught" else "**no**")
    fl = "?" if last is None else (" ".join(last[1]) if last[1] else "**none**")
    rows.append(f"| {n} | {files} | {what} | {f1} | {fl} |")
seed_tbl=("| seed | file(s) | what it breaks (author's words, shortened) | caught by its own check as the checks stood when it was written | caught by (final checks, quick tier, own property + related) |\n"
          "|------|---------|----------------------------------------------|---------------------------------------------|------------------------------|\n"+"\n".join(rows))
own=[]
p=f"{V}/seeded/own_catalogue.jsonl"
if os.path.exists(p):
    for l in open(p):
        r=json.loads(l)
        own.append(f"| {r['name']} | {r['file']} | {r['description']} | {'passes' if r['suite_passes'] else 'fails'} | {' '.join(r['caught_by']) or '**none**'} |")
own_tbl=("| own mutant | file | effect | pinned suite | caught by (all 18 quick checks) |\n|---|---|---|---|---|\n"+"\n".join(own))
s=open(f"{V}/DESIGN.md").read()
def put(tag, body):
    global s
    block=f"<!-- {tag}:BEGIN -->\n{body}\n<!-- {tag}:END -->"
    if tag in s and f"<!-- {tag}:BEGIN -->" not in s:
        s=s.replace(tag, block,1)
    else:
        s=re.sub(rf"<!-- {tag}:BEGIN -->.*?<!-- {tag}:END -->", lambda m: block, s, flags=re.S)
put("SEEDTABLE", seed_tbl)
put("OWNTABLE", own_tbl)
open(f"{V}/DESIGN.md","w").write(s)
print("seeds:",len(rows),"own:",len(own))
