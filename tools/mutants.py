#!/usr/bin/env python3
"""Own mutation catalogue: applies small text edits to /repo (one at a time), runs the
repository suite and all quick checks, records which checks fire, restores /repo.
Usage: tools/mutants.py [name ...]   -> appends to /verif/seeded/own_catalogue.jsonl"""
import subprocess, sys, json, os, re
REPO=os.environ.get("VH_REPO_DIR","/repo"); VERIF=os.environ.get("VH_VERIF_DIR","/verif"); OUT=os.environ.get("MUTANTS_OUT","/verif/seeded/own_catalogue.jsonl")
M = [
 # name, file, old, new, description
 ("list-endA-cursor", "v2/list.go", "pathCursor += 2", "pathCursor++", "index of hunks after appended tail elements off by one per element"),
 ("list-after-void", "v2/list.go", "\t\tif i+1 > len(a) {\n\t\t\treturn []JsonNode{voidNode{}}\n\t\t}\n\t\treturn []JsonNode{a[i]}", "\t\t_ = i\n\t\treturn []JsonNode{voidNode{}}", "after-context always the array boundary"),
 ("list-no-recursion", "v2/list.go", "\t\tcase sameContainerType(a[aCursor], b[bCursor], options):", "\t\tcase false && sameContainerType(a[aCursor], b[bCursor], options):", "same-position containers replaced instead of recursed into"),
 ("list-before-unchecked", "v2/list.go", "\t\tcase !b.Equals(l[bIndex]):", "\t\tcase false && !b.Equals(l[bIndex]):", "before-context not compared"),
 ("list-after-unchecked", "v2/list.go", "\t\tif !a.Equals(l[aIndex]) {", "\t\tif false && !a.Equals(l[aIndex]) {", "after-context not compared"),
 ("set-remove-absent-ok", "v2/set.go", "\t\ttoDelete, ok := aMap[hc]\n\t\tif !ok {\n\t\t\treturn nil, fmt.Errorf(\n\t\t\t\t\"invalid diff: expected %v at %v but found nothing\",\n\t\t\t\tv.Json(), pathBehind)\n\t\t}", "\t\ttoDelete, ok := aMap[hc]\n\t\tif !ok {\n\t\t\tcontinue\n\t\t}", "set hunk: removing an absent member is accepted"),
 ("multiset-count-unchecked", "v2/multiset.go", "\t\tif count < 0 {", "\t\tif count < -1 {", "multiset hunk: one missing copy tolerated"),
 ("multiset-equals-no-len", "v2/multiset.go", "\tif len(a1) != len(a2) {\n\t\treturn false\n\t}\n\tif a1.hashCode", "\tif a1.hashCode", "multiset Equals without the length check"),
 ("object-diff-restate", "v2/object.go", "\t\t\tsubDiff := v1.diff(v2, append(path, PathKey(k1)), options, strategy)\n\t\t\td = append(d, subDiff...)", "\t\t\tsubDiff := v1.diff(v2, append(path, PathKey(k1)), options, strategy)\n\t\t\tif len(subDiff) == 0 && len(o1) == 3 && strategy != mergePatchStrategy {\n\t\t\t\tsubDiff = Diff{{Path: append(path, PathKey(k1)).clone(), Remove: []JsonNode{v1}, Add: []JsonNode{v2}}}\n\t\t\t}\n\t\t\td = append(d, subDiff...)", "objects with exactly 3 keys restate unchanged members as no-op hunks"),
 ("pointer-no-escape", "v2/pointer.go", "\t\t\ts := jsonpointer.Escape(string(e))\n\t\t\tb.WriteString(s)", "\t\t\tb.WriteString(string(e))", "JSON Pointer keys not escaped"),
 ("renderpatch-add-forward", "v2/diff_write.go", "\t\tfor i := len(element.Add) - 1; i >= 0; i-- {", "\t\tfor i := 0; i < len(element.Add); i++ {", "multi-add hunks rendered in forward order at one index"),
 ("renderpatch-after-index", "v2/diff_write.go", "\t\t\tindexDelta := len(element.Remove)", "\t\t\tindexDelta := len(element.Remove) + len(element.Add)*0 + 1 - 1 + boolToInt(len(element.Remove) > 2)", "after-context test index wrong for hunks removing 3+ elements"),
 ("reader-no-flush-add-at", "v2/diff_read.go", "\t\t\tif state == ADD || state == REMOVE || state == AFTER {\n\t\t\t\t// Save the previous diff element.\n\t\t\t\terr := checkDiffElement(de)\n\t\t\t\tif err != nil {\n\t\t\t\t\treturn errorAt(i, err)\n\t\t\t\t}\n\t\t\t\tdiff = append(diff, de)\n\t\t\t}\n\t\t\tp, err := ReadJsonString(dl[1:])", "\t\t\tif state == ADD || state == AFTER {\n\t\t\t\t// Save the previous diff element.\n\t\t\t\terr := checkDiffElement(de)\n\t\t\t\tif err != nil {\n\t\t\t\t\treturn errorAt(i, err)\n\t\t\t\t}\n\t\t\t\tdiff = append(diff, de)\n\t\t\t}\n\t\t\tp, err := ReadJsonString(dl[1:])", "a remove-only hunk followed by '@' is dropped by the reader"),
 ("number-equals-strict", "v2/number.go", "<= precision", "< precision || float64(n1) == float64(n2)", "Precision: difference exactly eps no longer equal"),
 ("merge-null-kept", "v2/diff_read.go", "\t\tif isNull(n) {\n\t\t\tn = voidNode{}\n\t\t}", "\t\tif isNull(n) && len(p) < 2 {\n\t\t\tn = voidNode{}\n\t\t}", "merge patch: null below the first level writes null instead of deleting"),
 ("cli-exit-swapped-merge", "v2/jd/main.go", "\t\thaveDiff = len(diff) > 0", "\t\thaveDiff = len(diff) > 0 && !(*format == \"merge\" && *mset)", "v2/jd -mset -f merge exits 0 on different inputs"),
 ("yaml-int-key", "v2/node.go", "\t\t\ts, ok := k.(string)\n\t\t\tif !ok {\n\t\t\t\treturn nil, fmt.Errorf(\"unsupported key type %T\", k)\n\t\t\t}", "\t\t\ts, ok := k.(string)\n\t\t\tif !ok {\n\t\t\t\ts = fmt.Sprint(k)\n\t\t\t}", "YAML non-string keys silently stringified"),
 ("setkeys-path-whole", "v2/path.go", "\t\tv, ok := o[k]\n\t\tif ok {\n\t\t\tkey[k] = v", "\t\tv, ok := o[k]\n\t\tif ok && len(o) < 4 {\n\t\t\tkey[k] = v", "SetKeys path drops the key value for members with 4+ fields"),
 ("v1-list-append-index", "lib/list.go", "\t\tif i == len(l) {\n\t\t\t// Append an element.\n\t\t\treturn append(l, patchedNode), nil\n\t\t}", "\t\tif i == len(l) && len(l) != 3 {\n\t\t\t// Append an element.\n\t\t\treturn append(l, patchedNode), nil\n\t\t}", "v1 append to an array of exactly 3 elements mis-handled"),
 ("v1-pointer-dash", "lib/pointer.go", "\t\t\tif int(e) == -1 {\n\t\t\t\tb.WriteString(\"-\")", "\t\t\tif int(e) == -1 && len(path) < 3 {\n\t\t\t\tb.WriteString(\"-\")", "v1 append token rendered as -1 at depth 3+"),
 ("render-color-leak", "v2/diff_write.go", "\t\t\tb.WriteString(\"+ \")\n\t\t\tb.Write(newValueJson)\n\t\t\tb.WriteString(\"\\n\")\n\t\t\tif isColor {\n\t\t\t\tb.WriteString(colorDefault)\n\t\t\t}", "\t\t\tb.WriteString(\"+ \")\n\t\t\tb.Write(newValueJson)\n\t\t\tb.WriteString(\"\\n\")\n\t\t\tif isColor || len(d.Add) > 2 {\n\t\t\t\tb.WriteString(colorDefault)\n\t\t\t}", "colour reset written without -color for hunks adding 3+ values"),
]
HELPER = "\nfunc boolToInt(b bool) int {\n\tif b {\n\t\treturn 1\n\t}\n\treturn 0\n}\n"
def sh(cmd, **kw): return subprocess.run(cmd, shell=True, capture_output=True, text=True, **kw)
names = sys.argv[1:]
os.makedirs(os.path.dirname(OUT), exist_ok=True)
for name, f, old, new, desc in M:
    if names and name not in names: continue
    assert sh(f"git -C {REPO} status --porcelain").stdout.strip() == "", "repo dirty"
    p = REPO + "/" + f
    s = open(p).read()
    if s.count(old) != 1:
        print(name, "PATTERN COUNT", s.count(old)); continue
    s2 = s.replace(old, new)
    if "boolToInt" in new: s2 += HELPER
    open(p, "w").write(s2)
    try:
        suite = sh(f"{VERIF}/tools/repotest.sh")
        suite_ok = suite.returncode == 0
        caught, lines = [], {}
        for i in range(1, 19):
            c = f"C{i:02d}"
            r = sh(f"cd {VERIF} && ./check {c} quick")
            if r.returncode == 1: caught.append(c)
            elif r.returncode != 0: lines[c] = "rc=%d %s" % (r.returncode, r.stdout.strip().splitlines()[-1][:200] if r.stdout.strip() else r.stderr[-200:])
        rec = {"name": name, "file": f, "description": desc, "suite_passes": suite_ok, "caught_by": caught, "other": lines}
        print(json.dumps(rec), flush=True)
        open(OUT, "a").write(json.dumps(rec) + "\n")
    finally:
        sh(f"git -C {REPO} checkout -q -- . && git -C {REPO} clean -fdq")
