#!/bin/sh
# tools/lane.sh <dir>: builds a scratch lane = a copy of the harness working against a clone of /repo,
# so that seeded changes and mutants can be run without touching /repo or /verif/evidence.
# Use with: VH_VERIF_DIR=<dir>/verif VH_REPO_DIR=<dir>/repo tools/seedsweep.sh <log>
set -e
L="$1"
rm -rf "$L"; mkdir -p "$L/verif"
git clone -q /repo "$L/repo"
cp -r /verif/harness /verif/check /verif/known_findings.json /verif/tools "$L/verif/"
mkdir -p "$L/verif/evidence"
sed -i "s#=> /repo/v2#=> $L/repo/v2#; s#=> /repo\$#=> $L/repo#" "$L/verif/harness/go.mod"
grep -n "=>" "$L/verif/harness/go.mod"
