#!/bin/sh
# Runs the repository's own test suite (hooks OFF) and prints one summary line; exit 1 on any failure.
export GOFLAGS=-mod=mod GOPROXY=off
fail=0
( cd "${VH_REPO_DIR:-/repo}" && go test -vet=off -count=1 . ./lib ) > /tmp/repotest.$$ 2>&1 || fail=1
( cd "${VH_REPO_DIR:-/repo}/v2" && go test -vet=off -count=1 . ./jd ) >> /tmp/repotest.$$ 2>&1 || fail=1
grep -E "^(ok|FAIL|---)" /tmp/repotest.$$ | head -20
rm -f /tmp/repotest.$$
if [ $fail = 1 ]; then echo "REPO SUITE: FAIL"; exit 1; fi
echo "REPO SUITE: PASS"
