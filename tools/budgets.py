#!/usr/bin/env python3
"""tools/budgets.py <quick-log> <thorough-log>: refreshes the BUDGETTABLE block of DESIGN.md from the
'OK property=... evaluations=... distinct_nontrivial=... wall=...' lines of two runs."""
import re, sys
def parse(p):
    r={}
    for l in open(p):
        m=re.search(r"property=(C\d+) tier=(\w+) seed=(\d+) evaluations=(\d+) distinct_nontrivial=(\d+) known=(\d+) wall=([\d.]+)s", l)
        if m: r[m.group(1)]=(int(m.group(4)),int(m.group(5)),float(m.group(7)),int(m.group(6)))
    return r
q,t=parse(sys.argv[1]),parse(sys.argv[2])
rows=["| prop | quick: judged executions / distinct non-trivial / wall | thorough: judged executions / distinct non-trivial / wall |","|---|---|---|"]
for i in range(1,19):
    c=f"C{i:02d}"
    f=lambda x: "—" if x is None else f"{x[0]:,} / {x[1]:,} / {x[2]:.0f} s"
    rows.append(f"| {c} | {f(q.get(c))} | {f(t.get(c))} |")
block="<!-- BUDGETTABLE:BEGIN -->\n"+"\n".join(rows)+"\n<!-- BUDGETTABLE:END -->"
s=open("/verif/DESIGN.md").read()
if "<!-- BUDGETTABLE:BEGIN -->" in s:
    s=re.sub(r"<!-- BUDGETTABLE:BEGIN -->.*?<!-- BUDGETTABLE:END -->", lambda m: block, s, flags=re.S)
else:
    s=s.replace("BUDGETTABLE", block,1)
open("/verif/DESIGN.md","w").write(s)
print("ok")
