TB = "trusted base: harness reference models in /verif/harness/ref (no jd imports), encoding/json, the Go toolchain; inputs limited to the generators' alphabets and depths stated in the evidence file"
CLAIMS["C01"] = (
 "runtime monitor with reference model: in-memory Diff->Patch round trip judged by jd's Equals and an independent canonical form, on seeded random + exhaustive small workloads",
 "Held on every executed (a, b, option set) case: random structured pairs per option set, every array pair over a 3-letter alphabet up to length 4 (quick) / 5 (thorough) at four nesting positions, the FuzzJd corpus and void sides; a run is a finite sample of an unbounded space, with exhaustive strata marked as such.",
 TB, "DESIGN.md 5.1")
CLAIMS["C04"] = (
 "runtime monitor with reference model: Equals (both directions + reflexivity) judged by type-tagged canonical forms; hash-injectivity invariant over observed digests via the verif hook VerifHashCode",
 "Held on every executed pair: constructed equal / reordered / duplicated / near-miss / mutated / independent pairs under list, SET, MULTISET, SetKeys and four Precision values; every ordered pair of 40 type-confusable atoms at 4 wrappings (exhaustive); number/8-byte-string alias pairs (known finding F8); 64-bit digest table over all sub-values with public-API confirmation of suspects.",
 TB + "; real FNV collisions between unrelated values are unreachable by any run", "DESIGN.md 5.4")
CLAIMS["C05"] = (
 "runtime monitor with reference model: len(Diff)==0, Equals and an independent oracle compared pairwise; exit status of the three real binaries observed as processes",
 "Held on every executed (a, b, option set) incl. MERGE combinations and Precision at root / under keys / in arrays, the confusable atoms exhaustively, and on sampled CLI runs of v2/jd, jd and jd -v2=false (exit 0 iff oracle-equal).",
 TB, "DESIGN.md 5.5")
