TB = "trusted base: harness reference models in /verif/harness/ref (no jd imports), encoding/json, the Go toolchain; inputs limited to the generators' alphabets and depths stated in the evidence file"
CLAIMS["C01"] = (
 "runtime monitor with reference model: in-memory Diff->Patch round trip judged by jd's Equals and an independent canonical form, on seeded random + exhaustive small workloads",
 "Held on every executed (a, b, option set) case: random structured pairs per option set, every array pair over a 3-letter alphabet up to length 4 (quick) / 5 (thorough) at four nesting positions, the FuzzJd corpus and void sides; a run is a finite sample of an unbounded space, with exhaustive strata marked as such.",
 TB, "DESIGN.md 5.1")
