TB = "trusted base: harness reference models in /verif/harness/ref (no jd imports), encoding/json, the Go toolchain; inputs limited to the generators' alphabets and depths stated in the evidence file"
CLAIMS["C01"] = (
 "runtime monitor with reference model: in-memory Diff->Patch round trip judged by jd's Equals and an independent canonical form, on seeded random + exhaustive small workloads",
 "Held on every executed (a, b, option set) case: random structured pairs per option set, every array pair over a 3-letter alphabet up to length 4 (quick) / 5 (thorough) at four nesting positions, the FuzzJd corpus and void sides; operands also as in-memory results of Patch and the diff applied to the very operand it was computed from; strings of 1-140 KB differing in one middle byte and multiplicities around 256; a run is a finite sample of an unbounded space, with exhaustive strata marked as such.",
 TB, "DESIGN.md 5.1")
CLAIMS["C04"] = (
 "runtime monitor with reference model: Equals (both directions + reflexivity) judged by type-tagged canonical forms; hash-injectivity invariant over observed digests via the verif hook VerifHashCode",
 "Held on every executed pair: constructed equal / reordered / duplicated / near-miss / mutated / independent pairs under list, SET, MULTISET, SetKeys and four Precision values; every ordered pair of 40 type-confusable atoms at 4 wrappings (exhaustive); number/8-byte-string alias pairs (known finding F8) ; long strings differing in one middle byte and bags whose counts differ by multiples of 256 (exhaustive pairs); operands also as in-memory results of Patch; 64-bit digest table over all sub-values with public-API confirmation of suspects.",
 TB + "; real FNV collisions between unrelated values are unreachable by any run", "DESIGN.md 5.4")
CLAIMS["C05"] = (
 "runtime monitor with reference model: len(Diff)==0, Equals and an independent oracle compared pairwise; exit status of the three real binaries observed as processes",
 "Held on every executed (a, b, option set) incl. MERGE combinations and Precision at root / under keys / in arrays, the confusable atoms exhaustively,, the bulky atoms of C04, a document against a second parse of itself under SetKeys with shared or missing keys, and on sampled CLI runs of v2/jd, jd and jd -v2=false (exit 0 iff oracle-equal).",
 TB, "DESIGN.md 5.5")
CLAIMS["C06"] = (
 "runtime monitor with reference model: edit counts of list diffs judged against a textbook LCS DP; context lines judged by stepwise reference interpretation of the hunks",
 "Held on every executed array pair: all pairs over {1,2,3} up to length 4 (quick) / 5 (thorough) at four nesting positions (exhaustive), all pairs over {1,2} up to length 7 (thorough), random arrays up to length 40 over tiny alphabets, mixed scalar/container arrays (recursion instead of replacement), and context lines of every index hunk of random nested documents.",
 TB, "DESIGN.md 5.6")
CLAIMS["C07"] = (
 "runtime monitor with reference model: per-hunk reality checks against a and b, stepwise no-op detection with the reference interpreter, leave-one-out sub-diffs applied with the real Patch",
 "Held on every executed diff (list, SET, MULTISET, SetKeys x2, MERGE, SET+MERGE, exhaustive small arrays): every hunk removes what is in a only and adds what is in b only, no hunk leaves the document unchanged, and no leave-one-out sub-diff still turns a into b.",
 TB, "DESIGN.md 5.7")
CLAIMS["C03"] = (
 "runtime monitor with reference model: every Patch event of a generated diff or a sub-sequence of its hunks on a, b and perturbed targets compared (apply/reject and result) with an independent reference hunk interpreter",
 "Held on every executed (hunk subset, target) event: agreement in both directions (jd applies iff every encoded expectation holds; equal results), incl. all 2^n-1 subsets for small diffs, targets perturbed exactly at the edited array at nesting depth 0-3, in memory and after render/re-read.",
 TB, "DESIGN.md 5.3")
CLAIMS["C08"] = (
 "runtime monitor with reference model: every Patch event of set / multiset / keyed-member diffs on permuted and hostile targets compared with an independent set / bag / keyed-member interpreter",
 "Held on every executed (diff, target) event under SET, MULTISET and three SetKeys configurations, incl. non-array targets, absent members, insufficient multiplicity, changed non-key fields, members lacking one of two keys, constructed {} / [] hunks no single Diff emits, members that are 1-70 KB strings, multiplicities up to 300; the swallowed nested error inside keyed members is the open known finding F4 (classifier + deviation model).",
 TB, "DESIGN.md 5.8")
CLAIMS["C02"] = (
 "runtime monitor: render / re-read / re-render identity, field-by-field hunk identity and identical patch effect on a document panel, over diffs produced by Diff and exhaustively constructed hunk sequences; reader automaton transitions observed through the verif hook VerifReadTrace",
 "Held on every executed diff: ~54k diffs from Diff under 9 option sets with hostile string payloads, all 418 well-formed single hunk shapes, a third (quick) / all (thorough) ordered pairs of them, all pairs and 1/16 (quick) / all (thorough) triples of a reduced shape set, plus real-binary print-then-patch round trips, and the memory Render allocates for long single-string hunks (finding F33, fixed); all 25 reader transitions reachable from well-formed text were driven.",
 TB, "DESIGN.md 5.2")
CLAIMS["C09"] = (
 "runtime monitor with reference model: RenderPatch output parsed and evaluated by an independent RFC 6901/6902 evaluator on a and on perturbed targets where the native diff applies; refusal rule checked, also through both binaries (`-f patch`: status 1 with the rendering or status 2 with empty stdout)",
 "Held on every executed list-mode pair (random incl. pointer-hostile and number-like keys, all array pairs over {1,2,3} up to length 4 at four nestings, the FuzzJd corpus): the rendered patch is well formed, gives b on a, agrees with the native diff on every target where that applies, arrays of 10-270 elements edited at multi-digit indices, and is refused exactly for inexpressible keys.",
 TB + "; RFC 6902 root-replacement reading of DESIGN 5.9", "DESIGN.md 5.9")
CLAIMS["C10"] = (
 "runtime monitor with reference model: ReadPatchString + Patch compared with an independent RFC 6902 evaluation of the same patch text on the same document, over jd's own output and six subset-preserving variations",
 "Held on every executed (patch, target) where jd read and applied the patch: the RFC evaluation succeeded with an equal result (never more permissive or different); jd's own output on a reproduced b; counts of cases where both sides were evaluated are in the evidence.",
 TB + "; RFC 6902 root-replacement reading of DESIGN 5.9", "DESIGN.md 5.10")
CLAIMS["C11"] = (
 "runtime monitor with reference model: RenderMerge output applied to a by the RFC 7386 pseudocode and compared with b under the reading in force",
 "Held on every executed null-free differing pair under MERGE, SET+MERGE, MULTISET+MERGE (random incl. key removal at depth, type changes, empty containers, b={} ; an exhaustive family of small documents).",
 TB, "DESIGN.md 5.11")
CLAIMS["C12"] = (
 "runtime monitor with reference model: ReadMergeString + Patch compared with the RFC 7386 pseudocode on (target, patch) pairs",
 "Held on every executed pair (a quarter (quick) / all (thorough) of the product of an exhaustive family of small documents, all root kinds, random deeper pairs with nulls) apart from the two open known findings F15 (empty-object patch values) and F23 (root null), each recognised by classifier + deviation model.",
 TB, "DESIGN.md 5.12")
CLAIMS["C13"] = (
 "crash monitor: recover() around every public entry point in sacrificial worker processes (address-space limit, per-case journal attributing fatal errors), Go crash markers on the real binaries' stderr; hostile structured and damaged-text workloads",
 "Held on every executed input: ~60k structurally valid diffs with arbitrary paths applied to a 40-document panel (1.2M Patch calls), all single-element hostile paths x contexts exhaustively, damaged jd / JSON Patch / merge / JSON / YAML texts read-applied-rendered, hostile YAML, and ~2.7k CLI runs (status in {0,1,2}, status 2 whenever the library rejects, no stack trace).",
 TB + "; a finite sample of byte strings: absence of crashes on unexplored inputs is not claimed", "DESIGN.md 5.13")
CLAIMS["C15"] = (
 "runtime monitors: call-history oracle (repeatability of outputs, type-accurate deep dump of arguments before/after every read-only call, patch-after-render), Go race detector as a purity sanitizer on shared values, recomputation across repetitions and fresh processes",
 "Held on every executed history (25k random sequences of 8 read-only calls, all 120 orderings of the five renderers on a 50-subject panel), on 12k concurrent goroutine-call batches under -race (0 reports), and on repeated fresh computations in-process (12x) and across processes (4x) incl. diffs read from multi-key merge patches.",
 TB + "; the race detector sees only writes that execute on generated subjects", "DESIGN.md 5.15")
CLAIMS["C16"] = (
 "runtime monitor with reference model: documents written as YAML by an independent emitter (four styles) and as JSON must read equal; jd's own Yaml()/Json() output read back; real-binary translations and -yaml diff/patch",
 "Held on every executed document: a table of ~190 hostile strings as values and keys (exhaustive x 4 placements), number and integer-literal tables, 20k random hostile documents x 4 emitter styles, and CLI json2yaml|yaml2json, -yaml diff and -yaml -p runs; the key '<<' is the open known finding F16 (defect in the vendored YAML emitter).",
 TB + " incl. the harness's own YAML emitter ref.YamlEmit", "DESIGN.md 5.16")
CLAIMS["C17"] = (
 "runtime monitor with reference model on package lib: Diff->Patch in memory and through Render/ReadDiffString judged by lib's Equals and an independent canonical form; diff-empty <=> Equals <=> oracle; real binary with -v2=false",
 "Held on every executed (a, b, metadata) over 8 metadata sets (random pairs with growing/shrinking/in-place arrays, keyed members, equal-under-reading pairs), all array pairs over {1,2,3} up to length 4 at three positions and as SET/MULTISET, the FuzzJd corpus, and -v2=false diff|patch pipelines.",
 TB, "DESIGN.md 5.17")
CLAIMS["C18"] = (
 "runtime monitor with reference models on package lib: RenderPatch / RenderMerge texts evaluated by independent RFC 6902 / RFC 7386 evaluators on a, and read back with the v1 readers and applied",
 "Held on every executed pair: list mode incl. integer-like and escaping-hostile keys and '/-' appends (random + all array pairs over {1,2,3} up to length 4 at three positions), merge mode on null-free differing pairs (random + exhaustive small family); the document {} read back as a no-op is the open known finding F18.",
 TB, "DESIGN.md 5.18")
CLAIMS["C14"] = (
 "runtime monitor of real processes against a CLI model: exit status, stdout bytes, -o file bytes, stdin-vs-file equivalence of v2/jd, jd and jd -v2=false compared with the documented flag -> library-call mapping; print-then-patch pipelines",
 "Held on every executed run: all 640 diff-mode and 320 patch-mode flag combinations x 3 binaries x a panel of keyed / equal-as-sets / within-precision / differing pairs (3 quick, 25 thorough), translations from file and stdin, -git-diff-driver, and six error classes; patch-mode output equals the library rendering and reproduces b in jd, patch and merge formats, JSON and YAML.",
 TB + "; the CLI model in props/c14.go", "DESIGN.md 5.14")
