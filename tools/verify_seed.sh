#!/bin/sh
# tools/verify_seed.sh <seeded-dir>: confirms in a scratch worktree that the change applies, compiles,
# passes the existing suite, that its demonstration FAILS with the change and PASSES without it.
set -u
D="$1"
export GOPROXY=off GOFLAGS=-mod=mod
WT=/tmp/wt/verify.$$
git -C /repo worktree add -q --detach "$WT" HEAD || exit 2
trap 'git -C /repo worktree remove --force "$WT" >/dev/null 2>&1' EXIT INT TERM
cd "$WT" || exit 2
git apply "$D/patch.diff" || { echo "VERIFY: patch does not apply"; exit 1; }
files=$(git diff --name-only | tr '\n' ' ')
suite=PASS
( go test -count=1 . ./lib >/dev/null 2>&1 && cd v2 && go test -count=1 . ./jd >/dev/null 2>&1 ) || suite=FAIL
# where does the demo go?
dir=v2
case "$files" in lib/*) dir=lib ;; main.go*) dir=. ;; esac
if grep -q '"demo_dir"' "$D/meta.json" 2>/dev/null; then dir=$(python3 -c "import json;print(json.load(open('$D/meta.json'))['demo_dir'])"); fi
DEMO="$D/demo_test.go"
[ -f "$DEMO" ] || DEMO="$D/demo_test.go.txt"
run_demo() {
  if [ -f "$DEMO" ]; then
    pkgline=$(grep -m1 '^package ' "$DEMO")
    d="$dir"
    case "$pkgline" in "package main"*) case "$files" in v2/jd/*) d=v2/jd ;; *) [ "$d" = v2 ] && d=v2/jd ;; esac ;; esac
    cp "$DEMO" "$WT/$d/zz_demo_test.go"
    tests=$(grep -o 'func Test[A-Za-z0-9_]*' "$DEMO" | sed 's/func //' | tr '\n' '|' | sed 's/|$//')
    ( cd "$WT/$d" && go test -count=1 -run "^($tests)\$" . ) >/tmp/verify_demo.$$ 2>&1; rc=$?
    rm -f "$WT/$d/zz_demo_test.go"
    return $rc
  elif [ -f "$D/demo.sh" ]; then
    ( cd "$WT" && JD_REPO="$WT" REPO="$WT" WT="$WT" bash "$D/demo.sh" "$WT" ) >/tmp/verify_demo.$$ 2>&1; return $?
  fi
  echo "no demo" > /tmp/verify_demo.$$; return 99
}
run_demo; with=$?
git checkout -q -- . 
run_demo; without=$?
echo "VERIFY $(basename $D): files=[$files] suite=$suite demo_with_change_rc=$with demo_pristine_rc=$without"
if [ "$suite" = PASS ] && [ $with -ne 0 ] && [ $with -ne 99 ] && [ $without -eq 0 ]; then echo "VERIFY: CONFIRMED"; rm -f /tmp/verify_demo.$$; exit 0; fi
echo "VERIFY: NOT CONFIRMED"; tail -15 /tmp/verify_demo.$$; rm -f /tmp/verify_demo.$$; exit 1
