#!/bin/sh
# tools/seedsweep.sh [outfile]
# Runs every seeded change under /verif/seeded through its own property's quick check and
# related ones (ALL=1: through all 18). One summary line per seed.
OUT="${1:-/tmp/seedsweep.log}"
[ "${RESUME:-0}" = 1 ] || : > "$OUT"
rel() {
  case "$1" in
    C01) echo "C01 C02 C05 C07" ;; C02) echo "C02 C13 C17" ;; C03) echo "C03 C09 C10 C02" ;; C04) echo "C04 C05 C17" ;;
    C05) echo "C05 C11 C14" ;; C06) echo "C06 C01" ;; C07) echo "C07 C05 C04" ;; C08) echo "C08 C01 C17" ;;
    C09) echo "C09 C10 C14" ;; C10) echo "C10 C13" ;; C11) echo "C11 C01 C14 C15" ;; C12) echo "C12 C14 C18" ;;
    C13) echo "C13" ;; C14) echo "C14 C05" ;; C15) echo "C15" ;; C16) echo "C16 C13" ;; C17) echo "C17 C18" ;; C18) echo "C18 C17" ;;
  esac
}
for d in /verif/seeded/${SEED_GLOB:-C[0-9][0-9][a-z]}; do
  n=$(basename "$d")
  p=$(echo "$n" | cut -c1-3)
  if [ "${RESUME:-0}" = 1 ] && grep -q "^$n |" "$OUT"; then continue; fi
  if [ "${ALL:-0}" = 1 ]; then checks=""; else checks=$(rel "$p"); fi
  if [ "${OWN_ONLY:-0}" = 1 ]; then
    case "$n" in C03p|C03q|C03r|C04g|C08h|C11q|C12j) ;; *) checks="$p" ;; esac
  fi
  r=$("${VH_VERIF_DIR:-/verif}/tools/seedrun.sh" "$d" $checks 2>&1)
  own=MISSED; echo "$r" | grep '^CAUGHT BY' | grep -q " $p" && own=caught
  echo "$n | own-check:$own | $(echo "$r" | grep -E '^suite') | $(echo "$r" | grep '^CAUGHT BY') | $(echo "$r" | grep -E 'rc=3' | tr '\n' ';' | cut -c1-300)" >> "$OUT"
done
echo SWEEP-DONE >> "$OUT"
