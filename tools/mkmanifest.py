#!/usr/bin/env python3
"""Regenerates /verif/MANIFEST.json from the table below (run after adding a check)."""
import json, os
V = "/verif"
props = [json.loads(l) for l in open(f"{V}/properties.jsonl")]
# id -> (technique, level text, level note, design ref)
CLAIMS = {}
exec(open(f"{V}/tools/claims.py").read())
BASE_OFF = ("cd /repo && GOPROXY=off GOFLAGS=-mod=mod go test -json -vet=off -count=1 -timeout 25m . ./lib && "
            "cd /repo/v2 && GOPROXY=off GOFLAGS=-mod=mod go test -json -vet=off -count=1 -timeout 25m . ./jd")
hooks_commits = [l.strip() for l in open(f"{V}/tools/hook_commits.txt")] if os.path.exists(f"{V}/tools/hook_commits.txt") else []
m = {
 "version": 1,
 "setup_cmd": "cd /verif/harness && GOFLAGS=-mod=mod GOPROXY=off go build -tags verif -o /dev/null ./cmd/vh",
 "hooks": {
  "guard": "verif",
  "enable": "go build -tags verif (the harness module replaces github.com/josephburnett/jd and .../v2 by /repo and /repo/v2, so every ./check rebuilds jd from the working tree with the tag on)",
  "baseline_off_cmd": BASE_OFF,
  "source_commits": hooks_commits,
  "add_only": True,
 },
 "engines": [{
  "name": "vh",
  "path": "/verif/harness",
  "serves_properties": sorted(CLAIMS),
  "kind_free_text": "runtime monitors: seeded + exhaustive workloads run against the real jd library (in sacrificial worker processes under an address-space limit) and the real jd binaries; every call is judged by independent reference models (canonical forms, hunk interpreter, RFC 6901/6902/7386 evaluators, LCS, YAML emitter); Go race detector as a purity sanitizer; panics / fatal errors attributed through a per-case journal",
 }],
 "checks": [],
 "not_applicable": [],
 "notes": "All checks: ./check <ID> quick|thorough, VERIF_SEED selects the PRNG stream (default 1). Exit 0 held / 1 VIOLATION / 3 INCONCLUSIVE (build failure, watchdog, coverage floor). Known findings: /verif/known_findings.json.",
}
for p in props:
    i = p["id"]
    if i in CLAIMS:
        tech, text, note, ref = CLAIMS[i]
        m["checks"].append({
         "property_id": i,
         "quick_cmd": f"./check {i} quick",
         "thorough_cmd": f"./check {i} thorough",
         "evidence_file": f"/verif/evidence/{i}.json",
         "replay_cmd_template": f"./check {i} --replay {{path}}",
         "engine": "vh",
         "level_claimed": {"category": "exploration", "text": text, "design_ref": ref},
         "level_note": note,
         "technique": tech,
        })
    else:
        m["not_applicable"].append({"property_id": i, "reason": "check not built yet (work in progress; see DESIGN.md)"})
json.dump(m, open(f"{V}/MANIFEST.json", "w"), indent=1)
print("claimed:", sorted(CLAIMS), "unclaimed:", [x["property_id"] for x in m["not_applicable"]])
