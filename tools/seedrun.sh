#!/bin/sh
# tools/seedrun.sh <seeded-dir> [check ids...]
# Applies <seeded-dir>/patch.diff to /repo, runs the given checks (default: all, quick tier),
# prints one line per check, and always restores /repo afterwards.
set -u
D="$1"; shift
CHECKS="${*:-C01 C02 C03 C04 C05 C06 C07 C08 C09 C10 C11 C12 C13 C14 C15 C16 C17 C18}"
REPO="${VH_REPO_DIR:-/repo}"; VERIF="${VH_VERIF_DIR:-/verif}"
cd "$REPO" || exit 2
if [ -n "$(git status --porcelain)" ]; then echo "/repo not clean"; exit 2; fi
if ! git apply "$D/patch.diff"; then echo "patch does not apply"; exit 2; fi
trap 'cd "$REPO" && git checkout -q -- . && git clean -fdq' EXIT INT TERM
# the existing suite must still pass with the change
if "$VERIF/tools/repotest.sh" >/tmp/seedrun.suite.$$ 2>&1; then echo "suite: PASS"; else echo "suite: FAIL"; tail -5 /tmp/seedrun.suite.$$; fi
rm -f /tmp/seedrun.suite.$$
caught=""
for c in $CHECKS; do
  out=$(cd "$VERIF" && ./check $c quick 2>&1)
  rc=$?
  line=$(echo "$out" | grep -E "^(OK|FAILED|INCONCLUSIVE)" | tail -1)
  w=$(echo "$out" | grep -E "^  witness" | head -1 | cut -c1-220)
  echo "$c rc=$rc $line"
  if [ $rc -eq 1 ]; then caught="$caught $c"; echo "    $w"; fi
done
echo "CAUGHT BY:$caught"
