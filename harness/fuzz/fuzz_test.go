// Package fuzz holds the coverage-guided leg of C13: Go native fuzz targets
// with a crash oracle (any panic fails the target). They are driven by
// `./check C13 thorough` with a fixed execution count, never by wall clock.
package fuzz

import (
	"testing"

	jd "github.com/josephburnett/jd/v2"
)

var docs = []string{``, `null`, `1`, `"x"`, `[]`, `[1,2,3]`, `{"a":[1,2,{"id":1,"a":[1]}]}`, `[{"id":1},{"id":2}]`, `{"a":{"b":{"c":1}}}`}

func applyAll(t *testing.T, d jd.Diff, doc string) {
	for _, x := range append([]string{doc}, docs...) {
		n, err := jd.ReadJsonString(x)
		if err != nil {
			continue
		}
		p, err := n.Patch(d)
		if err == nil && p != nil {
			_ = p.Json()
			_ = p.Yaml()
		}
	}
	_ = d.Render()
	_ = d.Render(jd.COLOR)
	_, _ = d.RenderPatch()
	_, _ = d.RenderMerge()
}

func FuzzDiffText(f *testing.F) {
	f.Add("@ [0]\n[\n- 1\n+ 2\n  3\n", `[1,3]`)
	f.Add("^ {\"Merge\":true}\n@ [\"a\"]\n+\n", `{"a":1}`)
	f.Add("@ [\"a\",{}]\n- 1\n+ 2\n+ 3\n", `{"a":[1]}`)
	f.Add("@ [{\"id\":1},\"a\"]\n- 1\n+ 2\n", `[{"id":1,"a":1}]`)
	f.Add("@ [[]]\n- 1\n- 1\n", `[1,1]`)
	f.Fuzz(func(t *testing.T, text, doc string) {
		d, err := jd.ReadDiffString(text)
		if err != nil {
			return
		}
		applyAll(t, d, doc)
		// the rendering of whatever was read goes back through the reader (crash oracle only)
		if d2, err := jd.ReadDiffString(d.Render()); err == nil {
			applyAll(t, d2, doc)
		}
	})
}

func FuzzPatchText(f *testing.F) {
	f.Add(`[{"op":"test","path":"/0","value":1},{"op":"remove","path":"/0","value":1},{"op":"add","path":"/0","value":2}]`, `[1]`)
	f.Add(`[{"op":"test","path":"/a/1","value":1},{"op":"test","path":"/a/2","value":2},{"op":"add","path":"/a/2","value":9}]`, `{"a":[0,1,2]}`)
	f.Add(`[{"op":"add","path":"/-","value":1},{"op":"add","path":"/-","value":2}]`, `[]`)
	f.Fuzz(func(t *testing.T, text, doc string) {
		d, err := jd.ReadPatchString(text)
		if err != nil {
			return
		}
		applyAll(t, d, doc)
	})
}

func FuzzMergeText(f *testing.F) {
	f.Add(`{"a":{"b":null,"c":{}},"d":[1,null]}`, `{"a":{"b":1}}`)
	f.Add(`null`, `1`)
	f.Fuzz(func(t *testing.T, text, doc string) {
		d, err := jd.ReadMergeString(text)
		if err != nil {
			return
		}
		applyAll(t, d, doc)
	})
}

func FuzzYamlDoc(f *testing.F) {
	f.Add("a: [1, {b: ~}]\n")
	f.Add("- .inf\n- &x [1]\n- *x\n")
	f.Add("<<: {a: 1}\n")
	f.Fuzz(func(t *testing.T, text string) {
		n, err := jd.ReadYamlString(text)
		if err != nil {
			return
		}
		_ = n.Json()
		_ = n.Yaml()
		other, _ := jd.ReadJsonString(`{"a":[1,2]}`)
		for _, o := range [][]jd.Option{nil, {jd.SET}, {jd.MULTISET}, {jd.MERGE}, {jd.SetKeys("a")}} {
			d := n.Diff(other, o...)
			_ = d.Render()
			_ = n.Equals(other, o...)
			fresh, _ := jd.ReadYamlString(text)
			_, _ = fresh.Patch(d)
		}
	})
}

func FuzzJsonPair(f *testing.F) {
	f.Add(`[1,[2,3],{"a":1}]`, `[[2,4],1,{"a":2}]`)
	f.Add(`{"a":[{"id":1,"v":1}]}`, `{"a":[{"id":1,"v":2},{"id":2}]}`)
	f.Fuzz(func(t *testing.T, a, b string) {
		A, err := jd.ReadJsonString(a)
		if err != nil {
			return
		}
		B, err := jd.ReadJsonString(b)
		if err != nil {
			return
		}
		for _, o := range [][]jd.Option{nil, {jd.SET}, {jd.MULTISET}, {jd.SetKeys("id")}} {
			d := A.Diff(B, o...)
			text := d.Render()
			d2, err := jd.ReadDiffString(text)
			if err != nil {
				continue // (correctness of the text is C02's business; here only crashes matter)
			}
			A2, _ := jd.ReadJsonString(a)
			_, _ = A2.Patch(d2)
		}
	})
}
