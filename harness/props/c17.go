package props

import (
	"fmt"
	"strings"

	lib "github.com/josephburnett/jd/lib"

	"verifharness/gen"
	"verifharness/mon"
	"verifharness/ref"
)

// V1Set is a v1 metadata configuration with the reading the oracle uses.
type V1Set struct {
	Name    string
	MD      func() []lib.Metadata
	Reading ref.Reading
	Merge   bool
	Keys    []string
	Eps     float64
	HasEps  bool
	Flags   []string
}

var (
	V1None     = V1Set{Name: "v1:list", MD: func() []lib.Metadata { return nil }, Reading: ref.List}
	V1SetM     = V1Set{Name: "v1:SET", MD: func() []lib.Metadata { return []lib.Metadata{lib.SET} }, Reading: ref.Set, Flags: []string{"-set"}}
	V1Mset     = V1Set{Name: "v1:MULTISET", MD: func() []lib.Metadata { return []lib.Metadata{lib.MULTISET} }, Reading: ref.Multiset, Flags: []string{"-mset"}}
	V1Keys     = V1Set{Name: "v1:SET+Setkeys(id)", MD: func() []lib.Metadata { return []lib.Metadata{lib.SET, lib.Setkeys("id")} }, Reading: ref.Set, Keys: []string{"id"}, Flags: []string{"-set", "-setkeys", "id"}}
	V1Merge    = V1Set{Name: "v1:MERGE", MD: func() []lib.Metadata { return []lib.Metadata{lib.MERGE} }, Reading: ref.List, Merge: true, Flags: []string{"-f", "merge"}}
	V1SetMerge = V1Set{Name: "v1:SET+MERGE", MD: func() []lib.Metadata { return []lib.Metadata{lib.SET, lib.MERGE} }, Reading: ref.Set, Merge: true, Flags: []string{"-set", "-f", "merge"}}
	V1MsMerge  = V1Set{Name: "v1:MULTISET+MERGE", MD: func() []lib.Metadata { return []lib.Metadata{lib.MULTISET, lib.MERGE} }, Reading: ref.Multiset, Merge: true, Flags: []string{"-mset", "-f", "merge"}}
)

func V1Precision(eps float64) V1Set {
	return V1Set{Name: fmt.Sprintf("v1:SetPrecision(%g)", eps), MD: func() []lib.Metadata { return []lib.Metadata{lib.SetPrecision(eps)} }, Reading: ref.List, Eps: eps, HasEps: true,
		Flags: []string{fmt.Sprintf("-precision=%g", eps)}}
}

var V1MergePrec = V1Set{Name: "v1:MERGE+SetPrecision(0.1)", MD: func() []lib.Metadata { return []lib.Metadata{lib.MERGE, lib.SetPrecision(0.1)} }, Reading: ref.List, Merge: true,
	Eps: 0.1, HasEps: true, Flags: []string{"-f", "merge", "-precision=0.1"}}

var v1Sets = []V1Set{V1None, V1SetM, V1Mset, V1Keys, V1Merge, V1SetMerge, V1MsMerge, V1Precision(0.1), V1MergePrec}

func ReadJ1(s string) lib.JsonNode {
	n, err := lib.ReadJsonString(s)
	if err != nil {
		panic(fmt.Sprintf("harness bug: generated JSON rejected by lib: %q: %v", s, err))
	}
	return n
}

func Plain1(n lib.JsonNode) any {
	v, err := ref.FromJSON(n.Json())
	if err != nil {
		panic("lib rendered invalid JSON: " + n.Json())
	}
	return v
}

func v1Oracle(a, b any, m V1Set) bool {
	if m.HasEps {
		return ref.EqPrec(a, b, m.Eps)
	}
	return ref.Eq(a, b, m.Reading)
}

func v1Pair(r *gen.RNG, m V1Set, prof gen.Profile, i int) (any, any) {
	if m.Merge {
		prof.Scalars = withoutNull(prof.Scalars)
	}
	if m.HasEps {
		prof.Scalars = append(append([]any{}, numbersNear...), "a", true, nil)
	}
	switch {
	case len(m.Keys) > 0 && i%2 == 0:
		return keyedMemberPair(r, prof, m.Keys)
	case len(m.Keys) > 0:
		return gen.KeyedPair(r, prof, m.Keys)
	case i%7 == 6 && len(m.Keys) == 0 && !m.HasEps:
		return gen.DeepChainPair(r, prof, m.Merge)
	case i%5 == 4:
		o := OptSet{Reading: m.Reading, Keys: m.Keys}
		a, b, _ := eqPair(r, o, prof)
		return a, b
	}
	return gen.Pair(r, prof)
}

func c17Judge(c *mon.Ctx, aText, bText string, m V1Set) {
	c.Input("a", aText)
	c.Input("b", bText)
	c.Input("metadata", m.Name)
	c.Feature("md:" + m.Name)
	a, b := ref.MustJSON(aText), ref.MustJSON(bText)
	mkB := func() lib.JsonNode { return ReadJ1(bText) }
	if len(m.Keys) == 0 && c.R.Chance(0.1) {
		// b as the in-memory result of a (list-mode) Patch instead of a fresh parse
		other := ref.ToJSON(gen.Perturb(c.R, gen.PTiny, b))
		var P lib.JsonNode
		var err error
		if pan := mon.Safe(func() { P, err = ReadJ1(other).Patch(ReadJ1(other).Diff(ReadJ1(bText))) }); pan == "" && err == nil && P != nil && ref.Eq(Plain1(P), b, ref.List) {
			mkB = func() lib.JsonNode {
				Q, _ := ReadJ1(other).Patch(ReadJ1(other).Diff(ReadJ1(bText)))
				return Q
			}
			c.Input("b_built_by", "lib Patch (not re-parsed)")
			c.Feature("b_is_patch_result")
		}
	}
	mkA := func() lib.JsonNode { return ReadJ1(aText) }
	if c.R.Chance(0.1) {
		// a as the in-memory result of a list, set or multiset Patch (an exact copy of a, made of the nodes Patch leaves behind)
		other := ref.ToJSON(gen.Perturb(c.R, gen.PTiny, a))
		mode := gen.Pick(c.R, [][]lib.Metadata{nil, {lib.SET}, {lib.MULTISET}, {lib.MULTISET}})
		build := func() lib.JsonNode {
			var P lib.JsonNode
			var err error
			if pan := mon.Safe(func() { P, err = ReadJ1(other).Patch(ReadJ1(other).Diff(ReadJ1(aText), mode...)) }); pan != "" || err != nil || P == nil {
				return nil
			}
			return P
		}
		if P := build(); P != nil && ref.Eq(Plain1(P), a, ref.List) {
			mkA = build
			c.Input("a_built_by", "lib Patch (not re-parsed)")
			c.Feature("a_is_patch_result")
		}
	}
	d := mkA().Diff(mkB(), m.MD()...)
	text := d.Render()
	extra := map[string]any{"diff": text}
	eq := ReadJ1(aText).Equals(mkB(), m.MD()...)
	want := v1Oracle(a, b, m)
	if len(d) > 0 {
		c.Nontrivial(joinKey(aText, bText, m.Name))
		c.Feature("diff_nonempty")
		if len(d) >= 2 {
			c.Feature("hunks>=2")
		}
	} else {
		c.Feature("diff_empty")
	}
	la, lb := arrLen(a), arrLen(b)
	switch {
	case la >= 0 && lb > la:
		c.Feature("root_array_grows")
	case la >= 0 && lb >= 0 && lb < la:
		c.Feature("root_array_shrinks")
	case la >= 0 && lb == la:
		c.Feature("root_array_same_length")
	}
	// coherence: empty diff <=> Equals (and both against the independent oracle)
	if (len(d) == 0) != eq {
		c.Violation(fmt.Sprintf("(v1) diff is %s but Equals is %v", map[bool]string{true: "empty", false: "non-empty"}[len(d) == 0], eq), extra)
		return
	}
	if eq != want {
		c.Violation(fmt.Sprintf("(v1) Equals and Diff agree (%v) but the documents are %s under the %s reading", eq, map[bool]string{true: "equal", false: "different"}[want], m.Reading), extra)
		return
	}
	// in-memory round trip
	var P lib.JsonNode
	var err error
	if pan := mon.Safe(func() { P, err = ReadJ1(aText).Patch(d) }); pan != "" {
		extra["panic"] = pan
		c.Violation("(v1) Patch(a, a.Diff(b)) panicked", extra)
		return
	}
	if err != nil || P == nil {
		c.Violation("(v1) Patch(a, a.Diff(b)) failed: "+fmt.Sprint(err), extra)
		return
	}
	if !P.Equals(ReadJ1(bText), m.MD()...) {
		extra["patched"] = P.Json()
		c.Violation("(v1) patched document does not Equal b under the same metadata", extra)
		return
	}
	if sharedContainer(mkB()) == "" {
		if msg := sharedContainer(P); msg != "" {
			extra["patched"] = P.Json()
			c.Violation("(v1) the patched document holds one container at two places ("+msg+"): a later in-place patch of one changes the other", extra)
			return
		}
	}
	if got := Plain1(P); !v1Oracle(got, b, m) {
		extra["patched"] = ref.ToJSON(got)
		c.Violation("(v1) patched document differs from b under the "+m.Reading.String()+" reading (independent canonical form)", extra)
		return
	}
	// via Render / ReadDiffString
	d2, err := lib.ReadDiffString(ReadJ1(aText).Diff(ReadJ1(bText), m.MD()...).Render())
	if err != nil {
		c.Violation("(v1) rendered diff is rejected by ReadDiffString: "+err.Error(), extra)
		return
	}
	if msg := sharedContainer(d2); msg != "" {
		c.Violation("(v1) the diff read from text shares storage between two of its values ("+msg+")", extra)
		return
	}
	var P2 lib.JsonNode
	if pan := mon.Safe(func() { P2, err = ReadJ1(aText).Patch(d2) }); pan != "" {
		extra["panic"] = pan
		c.Violation("(v1) Patch with the re-read diff panicked", extra)
		return
	}
	if err != nil || P2 == nil {
		c.Violation("(v1) the re-read diff does not apply to a: "+fmt.Sprint(err), extra)
		return
	}
	if msg := sharedContainer(P2); msg != "" {
		c.Violation("(v1) a freshly parsed document patched with a freshly read diff holds one container at two places ("+msg+")", extra)
		return
	}
	if got := Plain1(P2); !v1Oracle(got, b, m) || !P2.Equals(ReadJ1(bText), m.MD()...) {
		extra["patched"] = ref.ToJSON(got)
		c.Violation("(v1) the re-read diff does not turn a into b", extra)
		return
	}
	// the diff applied to the very node it was computed from
	if len(d) > 0 {
		A := mkA()
		var P3 lib.JsonNode
		var dd lib.Diff
		if pan := mon.Safe(func() { dd = A.Diff(mkB(), m.MD()...); P3, err = A.Patch(dd) }); pan != "" {
			extra["panic"] = pan
			c.Violation("(v1) a.Patch(a.Diff(b)) on the very operand panicked", extra)
			return
		}
		if err != nil || P3 == nil {
			c.Violation("(v1) a.Patch(a.Diff(b)) on the very operand the diff was computed from failed: "+fmt.Sprint(err), extra)
			return
		}
		if got := Plain1(P3); !v1Oracle(got, b, m) {
			extra["patched"] = ref.ToJSON(got)
			c.Violation("(v1) a.Patch(a.Diff(b)) on the very operand the diff was computed from does not give b", extra)
			return
		}
		c.Feature("applied_to_the_operand_itself")
	}
	c.Feature("round_trips_ok")
	c.Sample(extra)
}

func arrLen(v any) int {
	if l, ok := v.([]any); ok {
		return len(l)
	}
	return -1
}

func init() {
	p := &mon.Property{
		ID: "C17",
		Rule: "v1 (package lib) cases are (a, b, metadata) over {none, SET, MULTISET, SET+Setkeys(id), MERGE (null-free), SET+MERGE, MULTISET+MERGE, SetPrecision(0.1), MULTISET+Setkeys(id)}: random structured pairs (plus set / multiset members that are 1-140 KB strings differing in one middle byte, multiplicities up to 257) with arrays growing, shrinking and changing in place, equal-under-reading pairs, keyed member pairs, " +
			"every array pair over {1,2,3} up to length 4 at three positions; verdict: diff empty <=> lib Equals <=> independent oracle; Patch of the in-memory diff (on a fresh parse of a and on the very operand the diff was computed from) and of the rendered+re-read diff gives b (lib Equals and reference canon); plus the -v2=false binary pipeline; " +
			"non-trivial = non-empty diff; distinct = distinct (a, b, metadata)",
		Floors: map[string]int{"round_trips_ok": 50000, "diff_empty": 5000, "hunks>=2": 10000, "root_array_grows": 3000, "root_array_shrinks": 3000, "root_array_same_length": 3000, "cli_v1_pipelines": 200, "b_is_patch_result": 3000, "applied_to_the_operand_itself": 5000, "multiset_with_setkeys": 3000, "uncommon_metadata_pairs": 3000, "keyless_members_next_to_keyed": 3000, "a_is_patch_result": 2000, "copies_made_by_a_multiset_patch": 1000, "twin_member_pairs": 5000, "setkeys_without_set": 3000, "bulky_member_cases": 300},
		Assumptions: []string{
			"v1 needs SET next to Setkeys for keyed sets (dispatch looks at SET / MULTISET only)",
			"MERGE inputs are null-free; Setkeys inputs satisfy the key precondition with scalar key values",
		},
		NeedsCLI: true,
	}
	for _, m := range v1Sets {
		m := m
		p.Strata = append(p.Strata, mon.Stratum{
			Name: "random/" + m.Name,
			N:    qt(12000, 1200000),
			Run: func(c *mon.Ctx, i int) {
				prof := c01Profiles[i%len(c01Profiles)]
				a, b := v1Pair(c.R, m, prof, i)
				c17Judge(c, ref.ToJSON(a), ref.ToJSON(b), m)
			},
		})
	}
	type exh struct {
		name string
		m    V1Set
		wrap int
	}
	for _, e := range []exh{{"root", V1None, 0}, {"under-key", V1None, 1}, {"in-array", V1None, 2}, {"root-SET", V1SetM, 0}, {"root-MULTISET", V1Mset, 0}} {
		e := e
		p.Strata = append(p.Strata, mon.Stratum{
			Name:       "exh-k3n4/" + e.name,
			N:          n(len(arraysK3N4) * len(arraysK3N4)),
			Exhaustive: always,
			Run: func(c *mon.Ctx, i int) {
				x, y := arraysK3N4[i/len(arraysK3N4)], arraysK3N4[i%len(arraysK3N4)]
				c17Judge(c, ref.ToJSON(gen.Wrap(x, e.wrap)), ref.ToJSON(gen.Wrap(y, e.wrap)), e.m)
			},
		})
	}
	for _, m := range []V1Set{V1None, V1SetM, V1Mset} {
		m := m
		p.Strata = append(p.Strata, mon.Stratum{
			Name:       "fuzz-corpus/" + m.Name,
			N:          n(len(FuzzCorpus) * len(FuzzCorpus)),
			Exhaustive: always,
			Run: func(c *mon.Ctx, i int) {
				c17Judge(c, FuzzCorpus[i/len(FuzzCorpus)], FuzzCorpus[i%len(FuzzCorpus)], m)
			},
		})
	}
	for _, m := range []V1Set{V1SetM, V1Mset, V1None, V1MsMerge} {
		m := m
		p.Strata = append(p.Strata, mon.Stratum{
			Name: "twins/" + m.Name,
			N:    qt(2500, 150000),
			Run: func(c *mon.Ctx, i int) {
				// members equal under the set / multiset reading but spelled differently, removed or kept several at a time
				a, b := twinsPair(c.R)
				c.Feature("twin_member_pairs")
				w := i % 3
				c17Judge(c, ref.ToJSON(gen.Wrap(a, w)), ref.ToJSON(gen.Wrap(b, w)), m)
			},
		})
	}
	p.Strata = append(p.Strata, mon.Stratum{
		Name: "copies-made-by-a-multiset-patch",
		N:    qt(1500, 100000),
		Run: func(c *mon.Ctx, i int) {
			// v1 counterpart of C01's stratum of the same name (finding F34): a is what a MULTISET Patch
			// returned after raising the multiplicity of a container member, b changes one copy inside
			r := c.R
			member := gen.Pick(r, []any{map[string]any{"k": 1.0, "l": []any{1.0}}, []any{1.0, map[string]any{"k": 1.0}}, map[string]any{"k": map[string]any{"n": 1.0}}})
			x := []any{ref.Clone(member), "z"}
			n := r.Range(2, 4)
			var want []any
			for k := 0; k < n; k++ {
				want = append(want, ref.Clone(member))
			}
			want = append(want, "z")
			w := i % 2
			xText, wText := ref.ToJSON(gen.Wrap(x, w)), ref.ToJSON(gen.Wrap(want, w))
			var A lib.JsonNode
			var err error
			if pan := mon.Safe(func() { A, err = ReadJ1(xText).Patch(ReadJ1(xText).Diff(ReadJ1(wText), lib.MULTISET)) }); pan != "" || err != nil || A == nil {
				c.Skip("the building patch failed")
				return
			}
			aText := A.Json()
			b := ref.MustJSON(aText)
			which, seen := r.Intn(n), 0
			var edit func(v any) any
			edit = func(v any) any {
				switch t := v.(type) {
				case []any:
					for j := range t {
						if ref.Eq(t[j], member, ref.List) {
							if seen == which {
								switch m := t[j].(type) {
								case map[string]any:
									m["k"] = 2.0
								case []any:
									t[j] = append(m, "new")
								}
							}
							seen++
						} else {
							t[j] = edit(t[j])
						}
					}
				case map[string]any:
					for _, k := range ref.SortedKeys(t) {
						t[k] = edit(t[k])
					}
				}
				return v
			}
			b = edit(b)
			bText := ref.ToJSON(b)
			c.Input("a", aText)
			c.Input("b", bText)
			c.Input("a_built_by", "lib MULTISET Patch that raised a multiplicity")
			c.Feature("copies_made_by_a_multiset_patch")
			c.Nontrivial(joinKey("copies", aText, bText))
			var P lib.JsonNode
			var d lib.Diff
			if pan := mon.Safe(func() { d = A.Diff(ReadJ1(bText)); P, err = A.Patch(d) }); pan != "" || err != nil || P == nil {
				c.Violation("(v1) a.Patch(a.Diff(b)) failed on a document returned by a MULTISET Patch: "+fmt.Sprint(err, pan), nil)
				return
			}
			if got := Plain1(P); !ref.Eq(got, b, ref.List) {
				c.Violation("(v1) a.Patch(a.Diff(b)) on a document returned by a MULTISET Patch is not b: the copies of a member share storage", map[string]any{"diff": d.Render(), "patched": ref.ToJSON(got)})
			}
		},
	})
	p.Strata = append(p.Strata, mon.Stratum{
		Name: "setkeys-with-keyless-members",
		N:    qt(4000, 200000),
		Run: func(c *mon.Ctx, i int) {
			// keyed members change, come and go next to several DIFFERENT objects that lack the key
			// (identified by their whole content); nested arrays of keyed members gain several values at once
			a, b := keyedMemberPair(c.R, gen.PTiny, []string{"id"})
			addKeyless := func(v any) any {
				extra := []any{map[string]any{"n": 1.0}, map[string]any{"n": 2.0, "m": []any{}}, map[string]any{}}
				switch t := v.(type) {
				case []any:
					return append(append([]any{}, t...), extra...)
				case map[string]any:
					if l, ok := t["list"].([]any); ok {
						t["list"] = append(append([]any{}, l...), extra...)
					}
				}
				return v
			}
			a, b = addKeyless(a), addKeyless(b)
			c.Feature("keyless_members_next_to_keyed")
			c17Judge(c, ref.ToJSON(a), ref.ToJSON(b), V1Keys)
		},
	})
	// Setkeys alone: without SET v1 reads arrays as ordered lists (its dispatch looks at SET / MULTISET only)
	v1KeysAlone := V1Set{Name: "v1:Setkeys(id) alone", MD: func() []lib.Metadata { return []lib.Metadata{lib.Setkeys("id")} }, Reading: ref.List, Flags: []string{"-setkeys", "id"}}
	p.Strata = append(p.Strata, mon.Stratum{
		Name: "random/" + v1KeysAlone.Name,
		N:    qt(5000, 300000),
		Run: func(c *mon.Ctx, i int) {
			prof := gen.PTiny.With(func(p *gen.Profile) { p.Keys = []string{"id", "v"}; p.Scalars = []any{1.0, 2.0, "a"} })
			o := OptSet{Reading: ref.List}
			a, b, _ := eqPair(c.R, o, prof)
			if i%2 == 0 {
				a, b = gen.Pair(c.R, prof)
				if c.R.Chance(0.4) {
					b = reorder(c.R, ref.Clone(a), false) // the same members in another order: different as lists
				}
			}
			c.Feature("setkeys_without_set")
			c17Judge(c, ref.ToJSON(a), ref.ToJSON(b), v1KeysAlone)
		},
	})
	// MULTISET together with Setkeys: the arrays stay bags (v1 reads keyed sets under SET only)
	v1MsetKeys := V1Set{Name: "v1:MULTISET+Setkeys(id)", MD: func() []lib.Metadata { return []lib.Metadata{lib.MULTISET, lib.Setkeys("id")} }, Reading: ref.Multiset,
		Flags: []string{"-mset", "-setkeys", "id"}}
	p.Strata = append(p.Strata, mon.Stratum{
		Name: "random/" + v1MsetKeys.Name,
		N:    qt(6000, 400000),
		Run: func(c *mon.Ctx, i int) {
			prof := gen.PTiny.With(func(p *gen.Profile) { p.Keys = []string{"id", "v"}; p.Scalars = []any{1.0, 2.0, "a"} })
			a, b := gen.Pair(c.R, prof)
			c.Feature("multiset_with_setkeys")
			c17Judge(c, ref.ToJSON(a), ref.ToJSON(b), v1MsetKeys)
		},
	})
	// a less common pair: SET together with MULTISET (SET wins in v1's dispatch). SET together with a
	// precision is not used: both binaries refuse it ("they use hashcodes"), and what the library does
	// with it (tolerance outside arrays, digests inside) is not an equivalence any property names.
	v1SetMset := V1Set{Name: "v1:SET+MULTISET", MD: func() []lib.Metadata { return []lib.Metadata{lib.SET, lib.MULTISET} }, Reading: ref.Set, Flags: []string{"-set", "-mset"}}
	for _, m := range []V1Set{v1SetMset} {
		m := m
		p.Strata = append(p.Strata, mon.Stratum{
			Name: "random/" + m.Name,
			N:    qt(5000, 300000),
			Run: func(c *mon.Ctx, i int) {
				prof := []gen.Profile{gen.PTiny, gen.PDefault}[i%2]
				a, b := v1Pair(c.R, m, prof, i)
				c.Feature("uncommon_metadata_pairs")
				c17Judge(c, ref.ToJSON(a), ref.ToJSON(b), m)
			},
		})
	}
	for _, m := range []V1Set{V1SetM, V1Mset} {
		m := m
		p.Strata = append(p.Strata, mon.Stratum{
			Name: "bulky-members/" + m.Name,
			N:    qt(400, 8000),
			Run: func(c *mon.Ctx, i int) {
				// members that are long strings (beyond 64 KiB too) differing only in the middle; high multiplicities
				r := c.R
				n := []int{1100, 5000, 70000, 140000}[i%4]
				s1, s2 := midDiffPair(n)
				alpha := []any{s1, s2, "x", 1.0, []any{s1}, map[string]any{"k": s2}, map[string]any{"k": s1}}
				mk := func() []any {
					var l []any
					for k := r.Range(1, 4); k > 0; k-- {
						l = append(l, gen.Pick(r, alpha))
					}
					return l
				}
				a, b := mk(), mk()
				if i%3 == 0 && m.Reading == ref.Multiset {
					hi := []int{3, 255, 256, 257}[(i/3)%4]
					for k := 0; k < hi; k++ {
						a = append(a, "x")
					}
					for k := r.Range(0, hi); k > 0; k-- {
						b = append(b, "x")
					}
				}
				c.Feature("bulky_member_cases")
				c17Judge(c, ref.ToJSON(a), ref.ToJSON(b), m)
			},
		})
	}
	p.Strata = append(p.Strata, mon.Stratum{
		Name: "setkeys-two-keys-some-members-partial",
		N:    qt(4000, 80000),
		Run: func(c *mon.Ctx, i int) {
			// two set keys; members carry both or only the first one (ids stay unique, so identity is still well defined)
			m := V1Set{Name: "v1:SET+Setkeys(id,k2)", MD: func() []lib.Metadata { return []lib.Metadata{lib.SET, lib.Setkeys("id", "k2")} }, Reading: ref.Set, Keys: []string{"id", "k2"}}
			n := c.R.Range(1, 4)
			mk := func() []any {
				arr := []any{}
				for j := 0; j < n; j++ {
					o := map[string]any{"id": float64(j + 1), "v": gen.Scalar(c.R, gen.PTiny), "w": gen.Scalar(c.R, gen.PTiny)}
					if j%2 == 0 {
						o["k2"] = []string{"x", "y", "z", "w"}[j]
					}
					arr = append(arr, o)
				}
				return arr
			}
			a := mk()
			b := ref.Clone(a).([]any)
			for _, e := range b {
				o := e.(map[string]any)
				if c.R.Chance(0.6) {
					o["v"] = gen.Scalar(c.R, gen.PTiny)
				}
				if c.R.Chance(0.5) {
					o["w"] = gen.Scalar(c.R, gen.PTiny)
				}
				if c.R.Chance(0.2) {
					delete(o, "v")
				}
			}
			gen.Shuffle(c.R, b)
			c.Feature("partial_key_members")
			var av, bv any = a, b
			if i%2 == 1 {
				av, bv = map[string]any{"items": a}, map[string]any{"items": b}
			}
			c17Judge(c, ref.ToJSON(av), ref.ToJSON(bv), m)
		},
	})
	p.Strata = append(p.Strata, mon.Stratum{
		Name: "very-long-lines",
		N:    qt(40, 800),
		Run: func(c *mon.Ctx, i int) {
			long := func() string {
				return strings.Repeat(gen.Pick(c.R, []string{"x", "ab", "long line "}), c.R.Range(70000, 150000)/2)
			}
			a := map[string]any{"a": 1.0, "b": "short", "c": []any{1.0, 2.0}, "z": true}
			b := map[string]any{"a": 2.0, "b": long(), "c": []any{1.0, long(), 3.0}, "zz": false}
			if i%2 == 1 {
				a, b = b, a
			}
			m := []V1Set{V1None, V1SetM, V1Mset}[i%3]
			c.Feature("very_long_line_diffs")
			c17Judge(c, ref.ToJSON(a), ref.ToJSON(b), m)
		},
	})
	p.Strata = append(p.Strata, mon.Stratum{
		Name: "cli-v2-false-pipeline",
		CLI:  true,
		N:    qt(240, 24000),
		Run: func(c *mon.Ctx, i int) {
			m := []V1Set{V1None, V1SetM, V1Mset, V1Keys}[i%4]
			a, b := v1Pair(c.R, m, gen.PDefault, i)
			if i%8 == 7 {
				// two set keys given with blanks around the names; members share "id" and differ in "k2"
				m = V1Set{Name: "v1:SET+Setkeys(id, k2)", MD: func() []lib.Metadata { return []lib.Metadata{lib.SET, lib.Setkeys("id", "k2")} }, Reading: ref.Set,
					Keys: []string{"id", "k2"}, Flags: []string{"-set", "-setkeys", "id , k2"}}
				mk := func(flip bool) []any {
					arr := []any{}
					for j := 0; j < 3; j++ {
						v := float64(c.R.Intn(3))
						if flip && j >= 1 {
							v += 7
						}
						arr = append(arr, map[string]any{"id": 1.0, "k2": []string{"x", "y", "z"}[j], "v": v})
					}
					return arr
				}
				a, b = mk(false), mk(true)
				c.Feature("cli_v1_setkeys_with_blanks")
			}
			aText, bText := ref.ToJSON(a), ref.ToJSON(b)
			c.Input("a", aText)
			c.Input("b", bText)
			c.Input("metadata", m.Name)
			want := v1Oracle(a, b, m)
			if len(m.Flags) == 0 && i%8 == 0 {
				m.Flags = []string{"-set=false", "-mset=false"} // flags given with a false value are flags not given
				c.Feature("cli_v1_false_flags")
			}
			res := RunCLI(c, BinTopV1, append(append([]string{}, m.Flags...), "a.json", "b.json"), "", map[string]string{"a.json": aText, "b.json": bText})
			wantStatus := 1
			if want {
				wantStatus = 0
			}
			extra := map[string]any{"stdout": res.Stdout, "stderr": res.Stderr, "status": res.Status}
			if res.Status != wantStatus {
				c.Violation(fmt.Sprintf("jd -v2=false exited %d, expected %d", res.Status, wantStatus), extra)
				return
			}
			res2 := RunCLI(c, BinTopV1, append(append([]string{}, m.Flags...), "-p", "p.diff", "a.json"), "", map[string]string{"p.diff": res.Stdout})
			c.Feature("cli_v1_pipelines")
			got, err := ref.FromJSON(res2.Stdout)
			if res2.Status != 0 || err != nil || !v1Oracle(got, b, m) {
				extra["patched"] = res2.Stdout
				extra["stderr2"] = res2.Stderr
				c.Violation("jd -v2=false a b | jd -v2=false -p on a does not reproduce b", extra)
				return
			}
			if !want {
				c.Nontrivial(joinKey("cli", aText, bText, m.Name))
			}
		},
	})
	mon.Register(p)
}
