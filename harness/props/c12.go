package props

import (
	"fmt"
	"os"
	"path/filepath"

	jd "github.com/josephburnett/jd/v2"

	"verifharness/gen"
	"verifharness/mon"
	"verifharness/ref"
)

func c12Case(c *mon.Ctx, tText, pText string) {
	c.Input("target", tText)
	c.Input("merge_patch", pText)
	t, p := ref.MustJSON(tText), ref.MustJSON(pText)
	want := ref.MergePatch(t, p)
	c.Nontrivial(joinKey(tText, pText))
	extra := map[string]any{"rfc_result": ref.ToJSON(want)}
	if _, isObj := p.(map[string]any); isObj {
		c.Feature("patch_is_object")
		if ref.HasNull(p) {
			c.Feature("patch_has_null")
		}
		if ref.ContainsEmptyObject(p) {
			c.Feature("patch_has_empty_object")
		}
	} else {
		c.Feature("patch_is_not_object")
	}
	d, err := jd.ReadMergeString(pText)
	if err != nil {
		c.Violation("ReadMergeString rejected a JSON Merge Patch document: "+err.Error(), extra)
		return
	}
	if c.Index%4 == 0 && c.WorkDir != "" {
		// the file entry point must read exactly what the string entry point reads
		fn := filepath.Join(c.WorkDir, "merge.json")
		if werr := os.WriteFile(fn, []byte(pText), 0o644); werr == nil {
			df, ferr := jd.ReadMergeFile(fn)
			c.Feature("file_reader_compared")
			if ferr != nil || hunksEqual(Hunks(d), Hunks(df)) != "" {
				extra["read_from_file_as"] = ref.HunksString(Hunks(df))
				c.Violation("ReadMergeFile and ReadMergeString read the same document differently", extra)
				return
			}
		}
	}
	extra["read_as"] = ref.HunksString(Hunks(d))
	var P jd.JsonNode
	var perr error
	if pan := mon.Safe(func() { P, perr = ReadJ(tText).Patch(d) }); pan != "" {
		extra["panic"] = pan
		c.Violation("Patch of a read merge patch panicked", extra)
		return
	}
	if perr != nil || P == nil {
		c.Violation("applying a read merge patch failed (RFC 7386 application never fails)", extra)
		return
	}
	got := Plain(P)
	extra["jd_result"] = P.Json()
	if ref.Eq(got, want, ref.List) {
		c.Feature("agree")
		c.Sample(extra)
		return
	}
	reason := "jd's result differs from RFC 7386 MergePatch(target, patch)"
	// F23: the patch document null at the root
	if p == nil && ref.IsVoid(got) {
		c.Known("F23", reason, extra)
		return
	}
	// F15: empty-object patch values
	if ref.ContainsEmptyObject(p) && ref.Eq(got, ref.MergePatchDev(t, p), ref.List) {
		c.Known("F15", reason, extra)
		return
	}
	c.Violation(reason, extra)
}

func init() {
	p := &mon.Property{
		ID: "C12",
		Rule: "cases are (target, merge patch) pairs: the complete product of an exhaustive family of small documents (objects of <=2 keys over {1, null, {}, {\"x\":1}, {\"x\":null}, [1], \"s\", []} to depth 2-3, scalars, arrays and null at the root) and random deeper pairs where the patch is a mutation of the target with nulls sprinkled; " +
			"ReadMergeString + Patch is compared with the RFC 7386 pseudocode; non-trivial = every case; distinct = distinct (target, patch)",
		Floors: map[string]int{"agree": 20000, "patch_has_null": 5000, "patch_is_not_object": 1000, "patch_has_empty_object": 1000, "file_reader_compared": 3000, "cli_merge_runs": 500, "sequence_steps": 5000},
		Assumptions: []string{"ref.MergePatch is the RFC 7386 pseudocode verbatim", "the empty (void) document as target is included; as patch text it is not a JSON document and is excluded"},
	}
	small := smallMergeDocs(true)
	p.Strata = append(p.Strata, mon.Stratum{
		Name:       "exh-small-family",
		N:          func(t mon.Tier) int { if t == mon.Thorough { return len(small) * len(small) }; return len(small) * len(small) / 4 },
		Exhaustive: func(t mon.Tier) bool { return t == mon.Thorough },
		Run: func(c *mon.Ctx, i int) {
			if c.Tier != mon.Thorough {
				i = (i*4 + int(c.Seed%4)) % (len(small) * len(small))
			}
			c12Case(c, small[i/len(small)], small[i%len(small)])
		},
	})
	roots := []string{`null`, `1`, `"s"`, `[]`, `[1,null]`, `{}`, `{"a":1}`, `{"a":null}`, `{"a":{"b":null}}`, `{"a":{}}`, `true`, ``}
	p.Strata = append(p.Strata, mon.Stratum{
		Name:       "roots",
		N:          n(len(roots) * (len(roots) - 1)),
		Exhaustive: always,
		Run: func(c *mon.Ctx, i int) {
			c12Case(c, roots[i/(len(roots)-1)], roots[i%(len(roots)-1)])
		},
	})
	p.Strata = append(p.Strata, mon.Stratum{
		Name: "random-deeper",
		N:    qt(40000, 12000000),
		Run: func(c *mon.Ctx, i int) {
			prof := []gen.Profile{gen.PObjects, gen.PNulls.With(func(p *gen.Profile) { p.PArr = 0.25 }), gen.PDeep.With(func(p *gen.Profile) { p.PArr = 0.2 }), gen.PHostile.With(func(p *gen.Profile) { p.PArr = 0.2 }), gen.PSyntaxy.With(func(p *gen.Profile) { p.PArr = 0.25 })}[i%5]
			t := gen.Doc(c.R, prof)
			var patch any
			if c.R.Chance(0.2) {
				patch = gen.Doc(c.R, prof)
			} else {
				patch = gen.Mutate(c.R, prof, t)
			}
			patch = sprinkleNulls(c.R, patch, i%3 != 0)
			if i%5 == 4 {
				// sibling members several levels down, some absent from the target, some null
				var pp any
				t, pp = gen.DeepChainPair(c.R, prof, false)
				patch = sprinkleNulls(c.R, pp, true)
				if c.R.Chance(0.3) {
					t = map[string]any{"unrelated": 1.0}
				}
				c.Feature("deep_chain_pairs")
			}
			c12Case(c, ref.ToJSON(t), ref.ToJSON(patch))
		},
	})
	// a document kept in memory and patched again and again (never re-parsed): each step must equal the RFC result
	p.Strata = append(p.Strata, mon.Stratum{
		Name: "patch-sequences",
		N:    qt(4000, 100000),
		Run: func(c *mon.Ctx, i int) {
			prof := gen.PObjects
			t := gen.Doc(c.R, prof)
			tText := ref.ToJSON(t)
			c.Input("target", tText)
			cur := ReadJ(tText)
			want := t
			steps := c.R.Range(2, 4)
			var texts []string
			for k := 0; k < steps; k++ {
				var patch any
				switch c.R.Intn(4) {
				case 0:
					patch = map[string]any{gen.Pick(c.R, prof.Keys): map[string]any{gen.Pick(c.R, prof.Keys): gen.Scalar(c.R, prof)}}
				case 1:
					patch = map[string]any{gen.Pick(c.R, prof.Keys): map[string]any{"fresh": map[string]any{"n": float64(k)}}, "gone": nil}
				default:
					patch = sprinkleNulls(c.R, gen.Mutate(c.R, prof, want), true)
				}
				if _, isObj := patch.(map[string]any); !isObj || ref.ContainsEmptyObject(patch) || patch == nil {
					patch = map[string]any{"k": float64(k)}
				}
				if i%3 == 0 {
					// an empty object written under a key the document does not have yet (jd and the RFC agree here),
					// then filled by the next patch: values taken from a patch must not be shared between documents
					key := fmt.Sprintf("fresh%d", i%5)
					if k == 0 {
						patch = map[string]any{key: map[string]any{}}
					} else if k == 1 {
						patch = map[string]any{key: map[string]any{"cpu": float64(i % 7), "mem": "x"}}
					}
				}
				pText := ref.ToJSON(patch)
				texts = append(texts, pText)
				c.Input(fmt.Sprintf("patch_%d", k+1), pText)
				d, err := jd.ReadMergeString(pText)
				if err != nil {
					c.Violation("ReadMergeString rejected a merge patch: "+err.Error(), nil)
					return
				}
				var perr error
				if pan := mon.Safe(func() { cur, perr = cur.Patch(d) }); pan != "" || perr != nil || cur == nil {
					c.Violation(fmt.Sprintf("step %d of a patch sequence failed: %v %s", k+1, perr, pan), nil)
					return
				}
				want = ref.MergePatch(want, patch)
				c.Feature("sequence_steps")
				c.Event()
				if got := Plain(cur); !ref.Eq(got, want, ref.List) {
					c.Violation(fmt.Sprintf("after step %d of a sequence of merge patches on one in-memory document the result differs from RFC 7386", k+1),
						map[string]any{"jd_result": ref.ToJSON(got), "rfc_result": ref.ToJSON(want)})
					return
				}
			}
			// canary: an unrelated document and the patch {"z":{}} after all of the above
			cd, _ := jd.ReadMergeString(`{"z":{}}`)
			if cp, err := ReadJ(`{"q":1}`).Patch(cd); err != nil || !ref.Eq(Plain(cp), ref.MustJSON(`{"q":1,"z":{}}`), ref.List) {
				got := ""
				if cp != nil {
					got = cp.Json()
				}
				c.Violation("after a patch sequence, an unrelated merge patch {\"z\":{}} on {\"q\":1} no longer gives {\"q\":1,\"z\":{}} (state shared between patches)", map[string]any{"jd_result": got})
				return
			}
			c.Nontrivial(joinKey(tText, joinKey(texts...)))
		},
	})
	// the same through the real binaries: jd -p -f merge patch target, JSON and YAML output
	p.Strata = append(p.Strata, mon.Stratum{
		Name: "cli-merge-patch",
		CLI:  true,
		N:    qt(300, 6000),
		Run: func(c *mon.Ctx, i int) {
			prof := gen.PObjects
			t := gen.Doc(c.R, prof)
			var patch any
			switch i % 4 {
			case 0:
				patch = gen.Scalar(c.R, prof) // replaces the root
			case 1:
				// a merge patch whose root is an array replaces the target, also when it looks like something else
				patch = gen.Pick(c.R, []any{[]any{gen.Scalar(c.R, prof)}, []any{}, []any{map[string]any{"op": "add", "path": "/b", "value": 2.0}}, []any{"c", "d"}})
			default:
				patch = sprinkleNulls(c.R, gen.Mutate(c.R, prof, t), true)
			}
			if patch == nil {
				patch = "x"
			}
			if i%5 == 0 {
				t = []any{1.0, 2.0} // a non-object target: an object patch replaces it
			}
			tText, pText := ref.ToJSON(t), ref.ToJSON(patch)
			c.Input("target", tText)
			c.Input("merge_patch", pText)
			want := ref.MergePatch(t, patch)
			if ref.ContainsEmptyObject(patch) {
				c.Skip("empty object in the patch (F15 is judged in the library strata)")
				return
			}
			c.Nontrivial(joinKey("cli", tText, pText))
			for _, bin := range []Binary{BinV2, BinTop} {
				for _, yaml := range []bool{false, true} {
					args := []string{"-p", "-f", "merge"}
					tf := tText
					if yaml {
						args = append(args, "-yaml")
						tf = ref.YamlEmit(t, ref.YBlockDouble)
					}
					res := RunCLI(c, bin, append(args, "p.json", "t.in"), "", map[string]string{"p.json": pText, "t.in": tf})
					c.Feature("cli_merge_runs")
					extra := map[string]any{"binary": bin.Name, "argv": fmt.Sprint(args), "stdout": res.Stdout, "stderr": res.Stderr, "rfc_result": ref.ToJSON(want)}
					if res.Status != 0 {
						c.Violation(fmt.Sprintf("jd -p -f merge exited %d on a valid merge patch", res.Status), extra)
						return
					}
					var got any
					var err error
					if yaml {
						var Y jd.JsonNode
						if Y, err = jd.ReadYamlString(res.Stdout); err == nil {
							got = Plain(Y)
						}
					} else {
						got, err = ref.FromJSON(res.Stdout)
					}
					if err != nil || !ref.Eq(got, want, ref.List) {
						c.Violation("jd -p -f merge prints a document different from RFC 7386 MergePatch(target, patch)", extra)
						return
					}
				}
			}
		},
	})
	p.NeedsCLI = true
	mon.Register(p)
}

// sprinkleNulls turns some object members into null (deletions); when
// noEmpty is set, empty objects below the root are given a member so the
// F15 trigger class is confined to the cases that ask for it.
func sprinkleNulls(r *gen.RNG, v any, noEmpty bool) any {
	switch t := v.(type) {
	case map[string]any:
		for _, k := range ref.SortedKeys(t) {
			if r.Chance(0.15) {
				t[k] = nil
				continue
			}
			t[k] = sprinkleNulls(r, t[k], noEmpty)
			if o, isObj := t[k].(map[string]any); isObj && len(o) == 0 && noEmpty {
				o["n"] = 1.0
			}
		}
		if r.Chance(0.15) {
			t["gone"] = nil
		}
	}
	return v
}
