package props

import (
	"encoding/json"
	"fmt"
	"os"
	"path/filepath"
	"strconv"
	"strings"

	jd "github.com/josephburnett/jd/v2"

	"verifharness/gen"
	"verifharness/mon"
	"verifharness/ref"
)

type jop struct {
	Op    string `json:"op"`
	Path  string `json:"path"`
	Value any    `json:"value"`
}

func parseOps(txt string) []jop {
	var ops []jop
	dec := json.NewDecoder(strings.NewReader(txt))
	if err := dec.Decode(&ops); err != nil {
		panic("harness: cannot parse rendered patch: " + err.Error())
	}
	return ops
}

func opsText(groups [][]jop) string {
	flat := []jop{}
	for _, g := range groups {
		flat = append(flat, g...)
	}
	b, _ := json.Marshal(flat)
	return string(b)
}

func lastTok(path string) (prefix, tok string) {
	i := strings.LastIndex(path, "/")
	if i < 0 {
		return "", path
	}
	return path[:i+1], path[i+1:]
}

func isContextTest(g []jop, i int) bool {
	return g[i].Op == "test" && !(i+1 < len(g) && g[i+1].Op == "remove" && g[i+1].Path == g[i].Path)
}

// vary applies one subset-preserving variation to the per-hunk op groups.
func vary(r *gen.RNG, groups [][]jop, hs []ref.Hunk, kind int, prof gen.Profile) ([][]jop, string, bool) {
	cp := make([][]jop, len(groups))
	for i, g := range groups {
		cp[i] = append([]jop{}, g...)
	}
	if len(cp) == 0 {
		return cp, "as-is", kind == 0
	}
	k := r.Intn(len(cp))
	g := cp[k]
	isList := len(hs[k].Path) > 0 && hs[k].Path[len(hs[k].Path)-1].Kind == ref.KIndex
	switch kind {
	case 0:
		return cp, "as-is", true
	case 1:
		return append(cp[:k:k], cp[k+1:]...), "drop-hunk", true
	case 2:
		var out []jop
		dropped := 0
		both := r.Chance(0.5)
		for i := range g {
			if isContextTest(g, i) && (both || dropped == 0) {
				dropped++
				continue
			}
			out = append(out, g[i])
		}
		cp[k] = out
		return cp, "drop-context-tests", dropped > 0
	case 3:
		for i := range g {
			if g[i].Op == "test" && i+1 < len(g) && g[i+1].Op == "remove" && g[i+1].Path == g[i].Path {
				v := gen.Scalar(r, prof)
				g[i].Value, g[i+1].Value = v, v
				return cp, "change-test/remove-value", true
			}
		}
		return cp, "", false
	case 4:
		if !isList {
			return cp, "", false
		}
		delta := gen.Pick(r, []int{-1, 1, 2})
		for i := range g {
			pre, tok := lastTok(g[i].Path)
			n, err := strconv.Atoi(tok)
			if err != nil || n+delta < 0 {
				return cp, "", false
			}
			g[i].Path = pre + strconv.Itoa(n+delta)
		}
		return cp, "shift-indices", true
	case 5:
		// adds at the end of the array rewritten as forward-order '-' appends
		h := hs[k]
		if !isList || len(h.After) != 1 || !ref.IsVoid(h.After[0]) || len(h.Add) == 0 {
			return cp, "", false
		}
		var out, adds []jop
		dropTests := r.Chance(0.7) // a context test cannot be related to the append token: jd refuses to read it
		for i, o := range g {
			if o.Op == "add" {
				adds = append(adds, o)
			} else if !(dropTests && isContextTest(g, i)) {
				out = append(out, o)
			}
		}
		// rendered adds are in reverse order at one index: forward order for a true append
		for i := len(adds) - 1; i >= 0; i-- {
			pre, _ := lastTok(adds[i].Path)
			out = append(out, jop{Op: "add", Path: pre + "-", Value: adds[i].Value})
		}
		cp[k] = out
		if len(adds) >= 2 {
			return cp, "append-token-multi", true
		}
		return cp, "append-token", true
	case 8:
		// a hunk moved onto the index of its predecessor in the same array, keeping all, only the
		// after-context or only the before-context test of its own
		var cands []int
		for j := 1; j < len(hs); j++ {
			pj, pi := hs[j].Path, hs[j-1].Path
			if len(pj) == 0 || len(pj) != len(pi) || pj[len(pj)-1].Kind != ref.KIndex || pi[len(pi)-1].Kind != ref.KIndex {
				continue
			}
			if (ref.Hunk{Path: pj[:len(pj)-1]}).PathString() == (ref.Hunk{Path: pi[:len(pi)-1]}).PathString() {
				cands = append(cands, j)
			}
		}
		if len(cands) == 0 {
			return cp, "", false
		}
		j := gen.Pick(r, cands)
		delta := hs[j-1].Path[len(hs[j-1].Path)-1].Index - hs[j].Path[len(hs[j].Path)-1].Index
		gj := cp[j]
		for i := range gj {
			pre, tok := lastTok(gj[i].Path)
			n, err := strconv.Atoi(tok)
			if err != nil || n+delta < 0 {
				return cp, "", false
			}
			gj[i].Path = pre + strconv.Itoa(n+delta)
		}
		hasBefore := len(hs[j].Before) == 1 && !ref.IsVoid(hs[j].Before[0])
		mode := r.Intn(3) // 0 keep all, 1 drop the before test, 2 drop the after test
		var out []jop
		ctxSeen := 0
		for i := range gj {
			if isContextTest(gj, i) {
				isBefore := hasBefore && ctxSeen == 0
				ctxSeen++
				if (mode == 1 && isBefore) || (mode == 2 && !isBefore) {
					continue
				}
			}
			out = append(out, gj[i])
		}
		cp[j] = out
		return cp, "onto-predecessor-index", true
	case 9:
		// one context test moved to a neighbouring index (its value unchanged), optionally with the other context
		// test dropped: the test no longer guards the element next to the edit. jd may refuse; if it applies, RFC must agree
		if !isList {
			return cp, "", false
		}
		var ctx []int
		for i := range g {
			if isContextTest(g, i) {
				ctx = append(ctx, i)
			}
		}
		if len(ctx) == 0 {
			return cp, "", false
		}
		i := gen.Pick(r, ctx)
		pre, tok := lastTok(g[i].Path)
		n, err := strconv.Atoi(tok)
		delta := gen.Pick(r, []int{-1, 1, -2, 2})
		if err != nil || n+delta < 0 {
			return cp, "", false
		}
		g[i].Path = pre + strconv.Itoa(n+delta)
		if len(ctx) == 2 && r.Chance(0.4) {
			other := ctx[0]
			if other == i {
				other = ctx[1]
			}
			cp[k] = append(append([]jop{}, g[:other]...), g[other+1:]...)
		}
		return cp, "context-test-moved", true
	case 6:
		// non-canonical array index tokens: RFC 6901 rejects all of them
		if !isList {
			return cp, "", false
		}
		i := r.Intn(len(g))
		pre, tok := lastTok(g[i].Path)
		n, err := strconv.Atoi(tok)
		if err != nil {
			return cp, "", false
		}
		alts := []string{"0" + tok, "+" + tok, "00" + tok}
		if n == 0 {
			alts = append(alts, "-0")
		}
		g[i].Path = pre + gen.Pick(r, alts)
		return cp, "non-canonical-index", true
	}
	return cp, "", false
}

func c10Case(c *mon.Ctx, aText, bText string, prof gen.Profile, kind int) {
	c.Input("a", aText)
	c.Input("b", bText)
	a, b := ref.MustJSON(aText), ref.MustJSON(bText)
	mk := func() jd.Diff { return ReadJ(aText).Diff(ReadJ(bText)) }
	hs := Hunks(mk())
	if len(hs) == 0 || unexpressible(hs) {
		c.Skip("empty or inexpressible diff")
		return
	}
	whole, err := mk().RenderPatch()
	if err != nil {
		c.Skip("RenderPatch refused (C09's business)")
		return
	}
	groups := make([][]jop, len(hs))
	for k := range hs {
		t, err := (jd.Diff{mk()[k]}).RenderPatch()
		if err != nil {
			c.Skip("hunk not renderable alone")
			return
		}
		groups[k] = parseOps(t)
	}
	if ref.Canon(ref.MustJSON(opsText(groups)), ref.List) != ref.Canon(ref.MustJSON(whole), ref.List) {
		c.Violation("rendering hunks one by one differs from rendering the diff", map[string]any{"whole": whole, "by_hunk": opsText(groups)})
		return
	}
	vg, vname, ok := vary(c.R, groups, hs, kind, prof)
	if kind == 7 {
		// compound: two variations in sequence (e.g. a hunk shifted onto its predecessor's index with its context test dropped)
		k1, k2 := gen.Pick(c.R, []int{4, 2, 1, 3}), gen.Pick(c.R, []int{2, 4, 3, 5})
		var n1, n2 string
		var ok1, ok2 bool
		vg, n1, ok1 = vary(c.R, groups, hs, k1, prof)
		if ok1 && len(vg) == len(hs) {
			vg, n2, ok2 = vary(c.R, vg, hs, k2, prof)
		}
		vname, ok = "compound("+n1+"+"+n2+")", ok1 && ok2
		if ok {
			c.Feature("variation:compound")
		}
	}
	if !ok {
		c.Skip("variation not applicable to this diff")
		return
	}
	p := opsText(vg)
	c.Input("variation", vname)
	c.Input("json_patch", p)
	c.Feature("variation:" + vname)
	ops, perr := ref.ParsePatch(p)
	if perr != nil {
		panic("harness: variation produced unparsable patch: " + perr.Error())
	}
	targets := [][2]string{{aText, "a"}, {bText, "b"}, {ref.ToJSON(gen.Perturb(c.R, prof, a)), "perturbed"}}
	if t, _, ok := perturbEdited(c.R, prof, a, hs[0]); ok {
		targets = append(targets, [2]string{ref.ToJSON(t), "perturbed-at-edit"})
	}
	c.Nontrivial(joinKey(aText, bText, p))
	if vname == "as-is" && c.Index%4 == 0 {
		// a JSON Patch is ONE JSON document: text after the operations array makes it none at all
		for _, tail := range []string{" []", "]", " x", "\n" + p} {
			if d, err := jd.ReadPatchString(p + tail); err == nil {
				c.Violation("ReadPatchString accepts a text that is not a JSON document (a JSON Patch followed by "+fmt.Sprintf("%q", trunc(tail))+"): an RFC 6902 implementation cannot even parse it", map[string]any{"read_as": ref.HunksString(Hunks(d))})
				return
			}
		}
		c.Feature("trailing_garbage_refused")
	}
	for _, t := range targets {
		c.Event()
		d, e1 := jd.ReadPatchString(p)
		if e1 == nil && c.Index%6 == 0 && c.WorkDir != "" {
			fn := filepath.Join(c.WorkDir, "p.json")
			if os.WriteFile(fn, []byte(p), 0o644) == nil {
				df, ferr := jd.ReadPatchFile(fn)
				c.Feature("file_reader_compared")
				if ferr != nil || hunksEqual(Hunks(d), Hunks(df)) != "" {
					c.Violation("ReadPatchFile and ReadPatchString read the same document differently", nil)
					return
				}
			}
		}
		if e1 != nil {
			c.Feature("jd_read_rejects")
			if vname == "as-is" {
				c.Violation("jd cannot read its own JSON Patch output: "+e1.Error(), nil)
				return
			}
			break
		}
		if c.Index%5 == 2 {
			// the chain ReadPatchString -> Render -> ReadDiffString: the patch saved as a native diff is the same diff
			if rd, rerr := jd.ReadDiffString(d.Render()); rerr != nil || hunksEqual(Hunks(d), Hunks(rd)) != "" {
				c.Violation("a diff read from a JSON Patch does not survive Render / ReadDiffString", map[string]any{"read_as": ref.HunksString(Hunks(d)), "error": fmt.Sprint(rerr)})
				return
			}
			c.Feature("patch_diff_rerendered")
		}
		var P jd.JsonNode
		var e2 error
		if pan := mon.Safe(func() { P, e2 = ReadJ(t[0]).Patch(d) }); pan != "" {
			c.Violation("Patch of a read JSON Patch panicked", map[string]any{"target": t[0], "panic": pan})
			return
		}
		want, werr := ref.Apply6902(ref.MustJSON(t[0]), ops)
		extra := map[string]any{"target": t[0], "target_kind": t[1], "read_as": ref.HunksString(Hunks(d))}
		if werr != nil {
			extra["rfc"] = "rejects: " + werr.Error()
		} else {
			extra["rfc"] = "result " + ref.ToJSON(want)
		}
		if e2 != nil || P == nil {
			c.Feature("jd_apply_rejects")
			if werr == nil {
				c.Feature("jd_stricter_than_rfc")
			}
			if vname == "as-is" && t[1] == "a" {
				c.Violation("reading jd's own JSON Patch output and applying it to a fails: "+fmt.Sprint(e2), extra)
				return
			}
			continue
		}
		got := Plain(P)
		extra["jd"] = "result " + ref.ToJSON(got)
		c.Feature("both_sides_evaluated(jd applied)")
		c.Feature("jd_applied:" + vname)
		if kind == 7 {
			c.Feature("jd_applied:compound")
		}
		known := ""
		if vname == "non-canonical-index" {
			known = "F20"
		}
		if werr != nil {
			reason := "jd read and applied a JSON Patch that RFC 6902 evaluation rejects on the same document (more permissive): " + werr.Error()
			if known != "" {
				c.Known(known, reason, extra)
				continue
			}
			c.Violation(reason, extra)
			return
		}
		if !ref.Eq(got, want, ref.List) {
			c.Violation("jd read and applied a JSON Patch with a result different from RFC 6902 evaluation", extra)
			return
		}
		c.Feature("agree")
		if vname == "as-is" && t[1] == "a" {
			if !ref.Eq(got, b, ref.List) {
				c.Violation("reading jd's own JSON Patch output and applying it to a does not reproduce b", extra)
				return
			}
			c.Feature("own_output_reproduces_b")
		}
		if t[1] != "a" {
			c.Sample(extra)
		}
	}
}

func init() {
	p := &mon.Property{
		ID: "C10",
		Rule: "cases are JSON Patch documents p = RenderPatch(a.Diff(b)) and subset-preserving variations (a whole hunk's ops dropped, context tests dropped, value changed consistently in a test/remove pair, all indices of a hunk's ops shifted, " +
			"end-of-array adds rewritten as forward-order '-' appends, non-canonical index tokens, and pairs of these in sequence) applied to a, b and perturbations; whenever ReadPatchString and Patch both succeed the harness's RFC 6902 evaluation of the same text on the same document must succeed with an equal result; " +
			"jd's own output on a must reproduce b; non-trivial = every case (non-empty expressible diff); distinct = distinct (a, b, patch text)",
		Floors: map[string]int{"both_sides_evaluated(jd applied)": 20000, "agree": 20000, "own_output_reproduces_b": 5000, "jd_applied:drop-hunk": 500, "jd_applied:drop-context-tests": 500,
			"jd_applied:change-test/remove-value": 200, "jd_applied:shift-indices": 200, "jd_applied:append-token": 200, "jd_applied:append-token-multi": 50, "jd_applied:compound": 200, "jd_applied:onto-predecessor-index": 200, "path_collision_pairs": 1000},
		Assumptions: []string{
			"jd erroring where the RFC evaluation succeeds is allowed (counted as jd_stricter_than_rfc); only 'more permissive or different' is a violation",
			"same RFC 6902 reading of root replacement as C09 (DESIGN 5.9)",
		},
	}
	for kind, name := range []string{"as-is", "drop-hunk", "drop-context-tests", "change-value", "shift-indices", "append-token", "non-canonical-index", "compound", "onto-predecessor-index", "context-test-moved"} {
		kind := kind
		p.Strata = append(p.Strata, mon.Stratum{
			Name: "variation/" + name,
			N:    qt(8000, 800000),
			Run: func(c *mon.Ctx, i int) {
				prof := append(patchProfiles[:5:5], gen.PNumbers, gen.PSyntaxy)[i%7]
				var a, b any
				switch {
				case i%10 == 9:
					x, y := gen.LongArrayPair(c.R)
					a, b = gen.Wrap(x, i%4), gen.Wrap(y, i%4)
					prof = gen.PTiny
					c.Feature("long_array_pairs")
				case kind == 8:
					// two or more hunks in one scalar array
					arrA := gen.Array(c.R, gen.PTiny, c.R.Range(2, 7), 0)
					arrB := mutateScalarArray(c.R, gen.PTiny, mutateScalarArray(c.R, gen.PTiny, arrA))
					w := i % 4
					a, b = gen.Wrap(arrA, w), gen.Wrap(arrB, w)
					prof = gen.PTiny
				case kind == 5 || i%3 == 0:
					// arrays edited at the tail (end-of-array adds), at several depths
					arrA := gen.Array(c.R, gen.PTiny, c.R.Range(0, 5), 0.1)
					arrB := append(ref.Clone(arrA).([]any), gen.Array(c.R, gen.PTiny, c.R.Range(1, 3), 0.1)...)
					if c.R.Chance(0.4) && len(arrA) > 0 {
						arrB = append(arrB[:len(arrA)-1:len(arrA)-1], arrB[len(arrA):]...)
					}
					if kind != 5 && c.R.Chance(0.5) {
						arrB = mutateScalarArray(c.R, gen.PTiny, arrA)
					}
					w := i % 4
					a, b = gen.Wrap(arrA, w), gen.Wrap(arrB, w)
					prof = gen.PTiny
				default:
					a, b = gen.Pair(c.R, prof)
				}
				c10Case(c, ref.ToJSON(a), ref.ToJSON(b), prof, kind)
			},
		})
	}
	// keys that read like a rendering of a neighbouring path ("a b", "a/b", "a,b", "f 1" next to a.b / f[1]):
	// any shortcut that compares paths through a printed form confuses them
	p.Strata = append(p.Strata, mon.Stratum{
		Name: "path-rendering-collisions",
		N:    qt(3000, 60000),
		Run: func(c *mon.Ctx, i int) {
			r := c.R
			t1, t2 := gen.Pick(r, []string{"a", "b", "f", "x"}), gen.Pick(r, []string{"a", "b", "k", "y"})
			sep := gen.Pick(r, []string{" ", "/", ",", ".", "~1", "~"})
			v, w := gen.Scalar(r, gen.PTiny), gen.Scalar(r, gen.PTiny)
			var a, b any
			switch i % 3 {
			case 0:
				a = map[string]any{t1: map[string]any{t2: v}}
				b = map[string]any{t1: map[string]any{}, t1 + sep + t2: w}
			case 1:
				a = map[string]any{t1: []any{1.0, v}, "z": 1.0}
				b = map[string]any{t1: []any{1.0}, t1 + sep + "1": w, "z": 1.0}
			default:
				a = map[string]any{t1: map[string]any{t2: v}, t1 + sep + t2: v}
				b = map[string]any{t1: map[string]any{t2: w}, t1 + sep + t2: w}
			}
			c.Feature("path_collision_pairs")
			c10Case(c, ref.ToJSON(a), ref.ToJSON(b), gen.PTiny, []int{0, 0, 1, 3}[i%4])
		},
	})
	mon.Register(p)
}
