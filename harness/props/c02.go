package props

import (
	"fmt"
	"os"
	"path/filepath"
	"regexp"
	"runtime"
	"strings"
	"sync"

	jd "github.com/josephburnett/jd/v2"

	"verifharness/gen"
	"verifharness/mon"
	"verifharness/ref"
)

var ansiRe = regexp.MustCompile("\x1b\\[[0-9;]*m")

func StripANSI(s string) string { return ansiRe.ReplaceAllString(s, "") }

var voidNode = func() jd.JsonNode { n, _ := jd.ReadJsonString(""); return n }()

// ---- reader transition trace (hook H2) ----

var traceMu sync.Mutex
var traceCur map[string]int

var stateNames = []string{"INIT", "META", "BEFORE", "AT", "REMOVE", "ADD", "AFTER"}

func init() {
	jd.VerifReadTrace = func(state int, header byte, flushed bool) {
		traceMu.Lock()
		defer traceMu.Unlock()
		if traceCur == nil {
			return
		}
		name := "?"
		if state >= 0 && state < len(stateNames) {
			name = stateNames[state]
		}
		k := fmt.Sprintf("%s --%q-->", name, string(header))
		if flushed {
			k += " (flush)"
		}
		traceCur[k]++
	}
}

func readTraced(c *mon.Ctx, text string) (jd.Diff, error) {
	traceMu.Lock()
	traceCur = map[string]int{}
	traceMu.Unlock()
	d, err := jd.ReadDiffString(text)
	traceMu.Lock()
	for k := range traceCur {
		c.Seen("reader_transitions_observed", k)
	}
	traceCur = nil
	traceMu.Unlock()
	return d, err
}

// hunksEqual compares two hunk lists field by field (nil and empty slices
// identified).
func hunksEqual(x, y []ref.Hunk) string {
	if len(x) != len(y) {
		return fmt.Sprintf("%d hunks became %d", len(x), len(y))
	}
	eqList := func(p, q []any) bool {
		if len(p) != len(q) {
			return false
		}
		for i := range p {
			if !ref.Eq(p[i], q[i], ref.List) {
				return false
			}
		}
		return true
	}
	for i := range x {
		switch {
		case x[i].Merge != y[i].Merge:
			return fmt.Sprintf("hunk %d: merge flag %v became %v", i, x[i].Merge, y[i].Merge)
		case x[i].PathString() != y[i].PathString():
			return fmt.Sprintf("hunk %d: path %s became %s", i, x[i].PathString(), y[i].PathString())
		case !eqList(x[i].Before, y[i].Before):
			return fmt.Sprintf("hunk %d: before context changed", i)
		case !eqList(x[i].Remove, y[i].Remove):
			return fmt.Sprintf("hunk %d: removed values changed", i)
		case !eqList(x[i].Add, y[i].Add):
			return fmt.Sprintf("hunk %d: added values changed", i)
		case !eqList(x[i].After, y[i].After):
			return fmt.Sprintf("hunk %d: after context changed", i)
		}
	}
	return ""
}

var c02Panel = []string{``, `null`, `1`, `"v1"`, `[]`, `["v1"]`, `["v1","v2"]`, `["c1","v1","c2"]`, `["c1","v1","v2","c2"]`, `{}`, `{"k":"v1"}`, `{"k":["v1"]}`,
	`{"k":["c1","v1","c2"]}`, `[{"id":"v1","k":"v1"}]`, `[["v1"]]`, `{"k":{"k":"v1"}}`, `["v1","v1"]`, `["v2"]`}

// patchOutcome applies a FRESH diff value (mk is called once per document) to a
// fresh parse of each panel document. One diff value must never be applied
// twice here: Patch puts a hunk's added containers into the document as they
// are, and a later hunk of the same diff that edits inside such a container
// edits the diff's own value with it (jd shares storage between documents and
// diffs by design), so a second application would see another diff.
func patchOutcome(mk func() jd.Diff, panel []string) []string {
	out := make([]string, len(panel))
	for i, x := range panel {
		var res string
		pan := mon.Safe(func() {
			P, err := ReadJ(x).Patch(mk())
			switch {
			case err != nil:
				res = "error"
			case P == nil:
				res = "nil"
			default:
				res = "ok:" + ref.Canon(Plain(P), ref.List)
			}
		})
		if pan != "" {
			res = "panic"
		}
		out[i] = res
	}
	return out
}

// c02RoundTrip judges one diff value: render, re-read, re-render, compare
// hunks, colour, and effect on a panel. mkDiff must build a FRESH diff on
// every call (rendering must never be able to contaminate another leg).
func c02RoundTrip(c *mon.Ctx, mkDiff func() jd.Diff, panel []string, renderOpts []jd.Option) bool {
	d := mkDiff()
	hs := Hunks(d)
	t := d.Render(renderOpts...)
	c.Input("text", t)
	extra := map[string]any{"hunks": ref.HunksString(hs)}
	d2, err := readTraced(c, t)
	if err != nil {
		c.Violation("rendered diff is rejected by ReadDiffString: "+err.Error(), extra)
		return false
	}
	if m := sharedContainer(d2); m != "" {
		c.Violation("the diff read from text shares storage between two of its values ("+m+"): a document patched with it holds one container twice, and a later patch of one place changes the other", extra)
		return false
	}
	c.Feature("read_diff_storage_checked")
	if c.Index%6 == 0 && c.WorkDir != "" {
		fn := filepath.Join(c.WorkDir, "d.diff")
		if os.WriteFile(fn, []byte(t), 0o644) == nil {
			df, ferr := jd.ReadDiffFile(fn)
			c.Feature("file_reader_compared")
			if ferr != nil || hunksEqual(Hunks(d2), Hunks(df)) != "" {
				c.Violation("ReadDiffFile and ReadDiffString read the same text differently", extra)
				return false
			}
		}
	}
	// the same text without its final line break (a shell's $(...) strips it) must read the same
	if c.Index%3 == 0 && strings.HasSuffix(t, "\n") {
		d3, err3 := jd.ReadDiffString(strings.TrimSuffix(t, "\n"))
		c.Feature("read_without_final_newline")
		if err3 != nil || hunksEqual(Hunks(d2), Hunks(d3)) != "" {
			extra["reread_without_final_newline"] = ref.HunksString(Hunks(d3))
			c.Violation("the diff text without its final newline reads differently", extra)
			return false
		}
	}
	t2 := d2.Render(renderOpts...)
	if t2 != t {
		extra["rerendered"] = t2
		c.Violation("render -> read -> render is not the identity on the text", extra)
		return false
	}
	if msg := hunksEqual(hs, Hunks(d2)); msg != "" {
		extra["reread"] = ref.HunksString(Hunks(d2))
		c.Violation("re-read diff differs from the original: "+msg, extra)
		return false
	}
	tc := mkDiff().Render(append([]jd.Option{jd.COLOR}, renderOpts...)...)
	if StripANSI(tc) != t {
		extra["colour"] = tc
		c.Violation("colour rendering differs from the plain rendering by more than ANSI escape sequences", extra)
		return false
	}
	if tc != t {
		c.Feature("colour_codes_present")
	}
	reread := func() jd.Diff {
		dx, _ := jd.ReadDiffString(t)
		return dx
	}
	for _, x := range panel {
		var P jd.JsonNode
		var perr error
		if pan := mon.Safe(func() { P, perr = ReadJ(x).Patch(reread()) }); pan == "" && perr == nil && P != nil {
			if m := sharedContainer(P); m != "" {
				extra["document"] = x
				c.Violation("a freshly parsed document patched with a freshly read diff holds one container at two places ("+m+")", extra)
				return false
			}
		}
	}
	o1, o2 := patchOutcome(mkDiff, panel), patchOutcome(reread, panel)
	for i := range panel {
		c.Feature("effect_comparisons")
		if strings.HasPrefix(o1[i], "ok") {
			c.Feature("effect_applies")
		}
		if o1[i] != o2[i] {
			extra["document"] = panel[i]
			extra["original_effect"] = o1[i]
			extra["reread_effect"] = o2[i]
			c.Violation("the re-read diff has a different effect on a document than the original diff", extra)
			return false
		}
	}
	return true
}

// ---- constructed hunk shapes ----

type shape struct {
	pathKind string // root key index set multiset keyed
	before   string // "", "[", "v", "[v", "vv"
	after    string // "", "]", "v", "v]", "vv"
	nRemove  int
	nAdd     int
	merge    bool
	voidAdd  bool
}

func (s shape) String() string {
	return fmt.Sprintf("%s/b=%q/a=%q/-%d/+%d/merge=%v/void=%v", s.pathKind, s.before, s.after, s.nRemove, s.nAdd, s.merge, s.voidAdd)
}

var allShapes, reducedShapes = func() ([]shape, []shape) {
	var all, red []shape
	ctxB := []string{"", "[", "v", "[v", "vv"}
	ctxA := []string{"", "]", "v", "v]", "vv"}
	for _, pk := range []string{"root", "key", "index", "set", "multiset", "keyed"} {
		arrayLike := pk == "index" || pk == "set" || pk == "multiset"
		for _, merge := range []bool{false, true} {
			if merge {
				if pk != "root" && pk != "key" {
					continue
				}
				all = append(all, shape{pathKind: pk, nAdd: 1, merge: true}, shape{pathKind: pk, nAdd: 1, merge: true, voidAdd: true},
					shape{pathKind: pk, nRemove: 1, nAdd: 1, merge: true}, shape{pathKind: pk, nRemove: 1, merge: true})
				red = append(red, shape{pathKind: pk, nAdd: 1, merge: true}, shape{pathKind: pk, nAdd: 1, merge: true, voidAdd: true},
					shape{pathKind: pk, nRemove: 1, nAdd: 1, merge: true})
				continue
			}
			for nr := 0; nr <= 3; nr++ {
				for na := 0; na <= 3; na++ {
					if nr+na == 0 || (!arrayLike && (nr > 1 || na > 1)) {
						continue
					}
					bs, as := []string{""}, []string{""}
					if pk == "index" {
						bs, as = ctxB, ctxA
					}
					for _, b := range bs {
						for _, a := range as {
							s := shape{pathKind: pk, before: b, after: a, nRemove: nr, nAdd: na}
							all = append(all, s)
							// reduced set: every (last line kind, first line kind) combination
							if nr <= 1 && na <= 1 && (b == "" || b == "[" || b == "v") && (a == "" || a == "]" || a == "v") {
								red = append(red, s)
							}
						}
					}
				}
			}
		}
	}
	return all, red
}()

var payloads = []string{"v1", "v2", "", "a\"b\\c", "line1\nline2", "<&>", "  ", "\U0001F600", "+", "- 1", "@ []", "^ {\"Merge\":true}", "[", "]", " ", "\t\u0000\u001f", "é", "0", "null", "\ufffd", "\u202eabc", "e\u0301", "1e+21", "-0", "a\u007fb", "\u0085", "x\u009fy", "-1", "x\ufeffy"}

func (s shape) build(r *gen.RNG, plain bool) jd.DiffElement {
	val := func() jd.JsonNode {
		if plain {
			return Node(gen.Pick(r, []any{"v1", "v2", 1.0, true, nil, []any{"v1"}, map[string]any{"k": "v1"}}))
		}
		switch r.Intn(4) {
		case 0:
			return Node(gen.Pick(r, payloads))
		case 1:
			return Node(map[string]any{gen.Pick(r, payloads): gen.Pick(r, payloads)})
		case 2:
			return Node([]any{gen.Pick(r, payloads), 1.5})
		default:
			return Node(gen.Pick(r, []any{"v1", 1.0, -2.5e10, true, nil}))
		}
	}
	e := jd.DiffElement{}
	key := "k"
	if !plain {
		key = gen.Pick(r, payloads)
	}
	switch s.pathKind {
	case "root":
		e.Path = jd.Path{}
	case "key":
		e.Path = jd.Path{jd.PathKey(key)}
	case "index":
		e.Path = jd.Path{jd.PathKey(key), jd.PathIndex(r.Intn(3))}
		if r.Chance(0.5) {
			e.Path = jd.Path{jd.PathIndex(r.Intn(3))}
		}
	case "set":
		e.Path = jd.Path{jd.PathKey(key), jd.PathSet{}}
		if r.Chance(0.5) {
			e.Path = jd.Path{jd.PathSet{}}
		}
	case "multiset":
		e.Path = jd.Path{jd.PathMultiset{}}
	case "keyed":
		e.Path = jd.Path{jd.PathSetKeys{"id": Node("v1")}, jd.PathKey(key)}
	}
	for _, ch := range s.before {
		if ch == '[' {
			e.Before = append(e.Before, voidNode)
		} else {
			e.Before = append(e.Before, val())
		}
	}
	for i := 0; i < s.nRemove; i++ {
		e.Remove = append(e.Remove, val())
	}
	for i := 0; i < s.nAdd; i++ {
		if s.voidAdd {
			e.Add = append(e.Add, voidNode)
		} else {
			e.Add = append(e.Add, val())
		}
	}
	for _, ch := range s.after {
		if ch == ']' {
			e.After = append(e.After, voidNode)
		} else {
			e.After = append(e.After, val())
		}
	}
	e.Metadata.Merge = s.merge
	return e
}

// validSequence: once a sequence turns merge it stays merge (metadata is
// additive and inherited in the text format).
func validSequence(ss []shape) bool {
	merge := false
	for _, s := range ss {
		if merge && !s.merge {
			return false
		}
		merge = merge || s.merge
	}
	return true
}

func c02Sequence(c *mon.Ctx, ss []shape, plain bool) {
	if !validSequence(ss) {
		c.Skip("strict hunk after a merge hunk is not representable in the text format")
		return
	}
	names := make([]string, len(ss))
	for i, s := range ss {
		names[i] = s.String()
	}
	c.Input("shapes", strings.Join(names, " ; "))
	seed := c.R.U64()
	mk := func() jd.Diff {
		r := gen.New(seed)
		d := make(jd.Diff, len(ss))
		for i, s := range ss {
			d[i] = s.build(r, plain)
		}
		return d
	}
	c.Feature(fmt.Sprintf("sequence_len_%d", len(ss)))
	for _, s := range ss {
		if s.merge {
			c.Feature("merge_metadata_line")
		}
		if s.voidAdd {
			c.Feature("void_addition")
		}
		if s.before != "" || s.after != "" {
			c.Feature("context_lines")
		}
		if s.nRemove > 1 || s.nAdd > 1 {
			c.Feature("multi_value")
		}
	}
	c.Nontrivial(joinKey(strings.Join(names, ";"), fmt.Sprint(seed)))
	if c02RoundTrip(c, mk, c02Panel, nil) {
		c.Sample(map[string]any{"text": mk().Render()})
	}
}

func init() {
	p := &mon.Property{
		ID: "C02",
		Rule: "two sources: (1) every diff a.Diff(b) of the C01 workloads (9 option sets, hostile string payloads) rendered, re-read, re-rendered, compared field by field, colour-stripped, and applied to a so that the re-read diff gives b; " +
			"(2) hunk sequences constructed from the public DiffElement fields: all well-formed single shapes (path kind x before/after context x 0..3 removes x 0..3 adds x merge/void), all pairs of them, and triples over a reduced shape set (thorough), with plain and hostile payloads; " +
			"each compared for text identity, hunk identity and identical effect on an 18-document panel; the reader's (state, header) transitions are recorded through hook VerifReadTrace; non-trivial = >=2 hunks or context or multi-value or merge metadata; distinct = distinct (shapes, payload seed) or (a, b, options)",
		Floors: map[string]int{"sequence_len_2": 20000, "long_string_replacement_renders": 20, "mixed_width_string_replacements": 3000, "merge_metadata_line": 800, "void_addition": 200, "context_lines": 5000, "multi_value": 5000,
			"effect_applies": 5000, "#reader_transitions_observed": 25, "colour_codes_present": 10000, "from_diff_multi_hunk": 5000, "reread_patch_gives_b": 20000, "very_long_line_diffs": 50},
		Assumptions: []string{
			"a strict hunk after a merge hunk is not representable (metadata lines are additive and inherited) and is excluded, as the property itself does",
			"constructed hunks keep context lines to index paths and at most one value on non-array paths (the well-formedness rules the format imposes)",
		},
		NeedsCLI: true,
	}
	// (1) diffs produced by Diff
	for _, o := range AllDiffOpts {
		o := o
		p.Strata = append(p.Strata, mon.Stratum{
			Name: "from-diff/" + o.Name,
			N:    qt(6000, 150000),
			Run: func(c *mon.Ctx, i int) {
				prof := c01Profiles[i%len(c01Profiles)]
				if i%3 == 0 {
					prof = prof.With(func(p *gen.Profile) {
						p.Scalars = []any{"v1", "a\"b\\c", "line1\nline2", "<&>", " ", "\U0001F600", "+", "@ []", "[", "]", "", 1.0, true}
						p.Keys = []string{"k", "a\"b", "<&>", "@", "é\n"}
					})
				}
				if o.Merge {
					prof.Scalars = withoutNull(prof.Scalars)
				}
				a, b := PairFor(c.R, o, prof)
				if i%7 == 6 && len(o.Keys) == 0 {
					a, b = gen.DeepChainPair(c.R, prof, o.Merge)
				}
				aText, bText := ref.ToJSON(a), ref.ToJSON(b)
				c.Input("a", aText)
				c.Input("b", bText)
				c.Input("options", o.Name)
				mk := func() jd.Diff { return ReadJ(aText).Diff(ReadJ(bText), o.O()...) }
				d := mk()
				if len(d) == 0 {
					c.Feature("from_diff_empty")
					return
				}
				if len(d) >= 2 {
					c.Feature("from_diff_multi_hunk")
				}
				c.Nontrivial(joinKey(aText, bText, o.Name))
				if !c02RoundTrip(c, mk, []string{aText, bText}, nil) {
					return
				}
				// the printed diff, read back, turns a into b
				d2, err := jd.ReadDiffString(mk().Render())
				if err != nil {
					c.Violation("re-read failed: "+err.Error(), nil)
					return
				}
				P, err := ReadJ(aText).Patch(d2)
				if err != nil {
					c.Violation("the re-read diff does not apply to a: "+err.Error(), map[string]any{"text": mk().Render()})
					return
				}
				if !ref.Eq(Plain(P), b, o.Reading) {
					c.Violation("the re-read diff does not turn a into b", map[string]any{"text": mk().Render(), "patched": P.Json()})
					return
				}
				c.Feature("reread_patch_gives_b")
			},
		})
	}
	// (1b) very long lines: values whose JSON encoding exceeds 64 KiB (every value is one line of the text format)
	p.Strata = append(p.Strata, mon.Stratum{
		Name: "from-diff/very-long-lines",
		N:    qt(60, 1200),
		Run: func(c *mon.Ctx, i int) {
			long := func() string {
				return strings.Repeat(gen.Pick(c.R, []string{"x", "ab", "\u00e9\"", "long line "}), c.R.Range(70000, 200000)/2)
			}
			a := map[string]any{"a": 1.0, "b": "short", "c": []any{1.0, 2.0, 3.0}, "z": true}
			b := map[string]any{"a": 2.0, "b": long(), "c": []any{1.0, long(), 3.0, 4.0}, "zz": false}
			if i%2 == 1 {
				a, b = b, a
			}
			o := []OptSet{OptNone, OptSetO, OptMset, OptMerge}[i%4]
			aText, bText := ref.ToJSON(a), ref.ToJSON(b)
			c.Input("options", o.Name)
			c.Input("a_bytes", len(aText))
			c.Input("b_bytes", len(bText))
			mk := func() jd.Diff { return ReadJ(aText).Diff(ReadJ(bText), o.O()...) }
			c.Feature("very_long_line_diffs")
			c.Nontrivial(joinKey(fmt.Sprint(i, len(aText), len(bText)), o.Name))
			if !c02RoundTrip(c, mk, []string{aText, bText}, nil) {
				return
			}
			d2, err := jd.ReadDiffString(mk().Render())
			if err != nil {
				c.Violation("re-read failed: "+err.Error(), nil)
				return
			}
			P, err := ReadJ(aText).Patch(d2)
			if err != nil || !ref.Eq(Plain(P), ref.MustJSON(bText), o.Reading) {
				c.Violation("the re-read diff (with lines longer than 64 KiB) does not turn a into b", map[string]any{"error": fmt.Sprint(err)})
			}
		},
	})
	p.Strata = append(p.Strata, mon.Stratum{
		Name: "single-string-replacements-mixed-width",
		N:    qt(6000, 400000),
		Run: func(c *mon.Ctx, i int) {
			// one string replaced by a related one (common prefix / suffix / interleaving), over an alphabet
			// of 1-, 2-, 3- and 4-byte runes plus characters JSON escapes: the character-level colouring
			// must still differ from the plain text by ANSI sequences only
			r := c.R
			alpha := []string{"a", "b", " ", "\u00e9", "\u00fc", "\u4e16", "\u754c", "\U0001F600", "\"", "\\", "<", "&", "\n", "\t", "\u2028", "e\u0301"}
			word := func(n int) string {
				var b strings.Builder
				for k := 0; k < n; k++ {
					b.WriteString(gen.Pick(r, alpha))
				}
				return b.String()
			}
			pre, mid1, mid2, suf := word(r.Range(0, 5)), word(r.Range(0, 3)), word(r.Range(0, 4)), word(r.Range(0, 5))
			s1, s2 := pre+mid1+suf, pre+mid2+suf
			switch i % 5 {
			case 1:
				s2 = pre + mid2 // different tails after a common prefix
			case 2:
				s2 = mid2 + suf
			case 3:
				s1, s2 = pre+mid1+pre, pre+mid2+pre+suf
			}
			if s1 == s2 {
				s2 += "x"
			}
			w := i % 3
			aText := ref.ToJSON(gen.Wrap([]any{s1, 1.0}, w))
			bText := ref.ToJSON(gen.Wrap([]any{s2, 1.0}, w))
			if i%2 == 1 {
				aText, bText = ref.ToJSON(map[string]any{"s": s1}), ref.ToJSON(map[string]any{"s": s2})
			}
			c.Input("a", aText)
			c.Input("b", bText)
			c.Feature("mixed_width_string_replacements")
			c.Nontrivial(joinKey("mw", aText, bText))
			mk := func() jd.Diff { return ReadJ(aText).Diff(ReadJ(bText)) }
			c02RoundTrip(c, mk, []string{aText, bText}, nil)
		},
	})
	p.Strata = append(p.Strata, mon.Stratum{
		Name: "long-string-replacements",
		N:    qt(24, 400),
		Run: func(c *mon.Ctx, i int) {
			// one long string replaced by another of similar length: the hunk must render, plain and
			// colored, in memory proportional to its text. Allocation (runtime.MemStats.TotalAlloc) is the
			// observable: a table over the product of the lengths shows at 4,000 characters already, where
			// it is harmless; at 70,000 it is 39 GB and the process dies (finding F33).
			n := []int{2000, 4000, 3000, 70000}[i%4]
			s1, s2 := midDiffPair(n)
			if i%8 >= 4 {
				s2 = s2[:n/2] + "inserted" + s2[n/2:]
			}
			aText, bText := ref.ToJSON(map[string]any{"s": s1, "n": 1.0}), ref.ToJSON(map[string]any{"s": s2, "n": 1.0})
			c.Input("string_bytes", n)
			c.Feature("long_string_replacement_renders")
			c.Nontrivial(joinKey("lsr", fmt.Sprint(i)))
			for _, ro := range [][]jd.Option{nil, {jd.COLOR}} {
				d := ReadJ(aText).Diff(ReadJ(bText))
				var m0, m1 runtime.MemStats
				runtime.ReadMemStats(&m0)
				text := d.Render(ro...)
				runtime.ReadMemStats(&m1)
				alloc := m1.TotalAlloc - m0.TotalAlloc
				// plain text needs no table at all; a character-level colouring may use a bounded one
				budget := uint64(64*(len(s1)+len(s2))) + 8<<20
				if len(ro) > 0 {
					budget += 56 << 20
				}
				if alloc > budget {
					c.Violation(fmt.Sprintf("Render allocated %d bytes for a hunk whose text has %d bytes (budget %d): memory grows with the product of the string lengths", alloc, len(text), budget),
						map[string]any{"colored": len(ro) > 0})
					return
				}
			}
			mk := func() jd.Diff { return ReadJ(aText).Diff(ReadJ(bText)) }
			c02RoundTrip(c, mk, []string{aText, bText}, nil)
		},
	})
	// (2) constructed shapes
	p.Strata = append(p.Strata, mon.Stratum{
		Name:       "constructed/single",
		N:          n(len(allShapes) * 2),
		Exhaustive: always,
		Run: func(c *mon.Ctx, i int) {
			c.Feature("sequence_len_1_shapes")
			c02Sequence(c, []shape{allShapes[i/2]}, i%2 == 0)
		},
	})
	p.Strata = append(p.Strata, mon.Stratum{
		Name: "constructed/pairs",
		N: func(t mon.Tier) int {
			if t == mon.Thorough {
				return len(allShapes) * len(allShapes)
			}
			return len(allShapes) * len(allShapes) / 3
		},
		Exhaustive: func(t mon.Tier) bool { return t == mon.Thorough },
		Run: func(c *mon.Ctx, i int) {
			if c.Tier != mon.Thorough {
				i = i*3 + int(c.Seed%3)
				if i >= len(allShapes)*len(allShapes) {
					i = len(allShapes)*len(allShapes) - 1
				}
			}
			c02Sequence(c, []shape{allShapes[i/len(allShapes)], allShapes[i%len(allShapes)]}, i%2 == 0)
		},
	})
	p.Strata = append(p.Strata, mon.Stratum{
		Name:       "constructed/reduced-pairs",
		N:          n(len(reducedShapes) * len(reducedShapes)),
		Exhaustive: always,
		Run: func(c *mon.Ctx, i int) {
			c02Sequence(c, []shape{reducedShapes[i/len(reducedShapes)], reducedShapes[i%len(reducedShapes)]}, true)
		},
	})
	p.Strata = append(p.Strata, mon.Stratum{
		Name: "constructed/reduced-triples",
		N: func(t mon.Tier) int {
			k := len(reducedShapes)
			if t == mon.Thorough {
				return k * k * k
			}
			return k * k * k / 16
		},
		Exhaustive: func(t mon.Tier) bool { return t == mon.Thorough },
		Run: func(c *mon.Ctx, i int) {
			k := len(reducedShapes)
			if c.Tier != mon.Thorough {
				i = (i*16 + int(c.Seed%16)) % (k * k * k)
			}
			c02Sequence(c, []shape{reducedShapes[i/(k*k)], reducedShapes[(i/k)%k], reducedShapes[i%k]}, i%2 == 0)
		},
	})
	// (3) CLI: jd a b > p ; jd -p p a gives b
	p.Strata = append(p.Strata, mon.Stratum{
		Name: "cli-print-then-patch",
		CLI:  true,
		N:    qt(300, 6000),
		Run: func(c *mon.Ctx, i int) {
			o := []OptSet{OptNone, OptSetO, OptMset, OptKeys1}[i%4]
			a, b := PairFor(c.R, o, gen.PDefault)
			aText, bText := ref.ToJSON(a), ref.ToJSON(b)
			c.Input("a", aText)
			c.Input("b", bText)
			c.Input("options", o.Name)
			for _, bin := range []Binary{BinV2, BinTop, BinTopV1} {
				flags := cliFlags(o)
				if bin.V1 && len(o.Keys) > 0 {
					flags = append([]string{"-set"}, flags...) // v1 reads keyed sets under -set only
				}
				c.Feature("cli_binary:" + bin.Name)
				res := RunCLI(c, bin, append(append([]string{}, flags...), "a.json", "b.json"), "", map[string]string{"a.json": aText, "b.json": bText})
				if res.Status > 1 {
					c.Violation(fmt.Sprintf("%s diff exited %d", bin.Name, res.Status), map[string]any{"stderr": res.Stderr})
					return
				}
				res2 := RunCLI(c, bin, append(append([]string{}, flags...), "-p", "p.diff", "a.json"), "", map[string]string{"p.diff": res.Stdout})
				c.Feature("cli_round_trips")
				if res2.Status != 0 {
					c.Violation(fmt.Sprintf("%s -p exited %d on the diff the same binary printed", bin.Name, res2.Status), map[string]any{"diff": res.Stdout, "stderr": res2.Stderr})
					return
				}
				got, err := ref.FromJSON(res2.Stdout)
				if err != nil || !ref.Eq(got, b, o.Reading) {
					c.Violation("jd a b | jd -p on a does not reproduce b", map[string]any{"diff": res.Stdout, "patched": res2.Stdout})
					return
				}
				if i%4 == 0 {
					// the diff written with -o while standard output is a character device is the same carrier
					os.Remove(filepath.Join(c.WorkDir, "o.diff"))
					RunCLIDevNull(c, bin, append(append([]string{"-o", "o.diff"}, flags...), "a.json", "b.json"), "", nil)
					od, _ := os.ReadFile(filepath.Join(c.WorkDir, "o.diff"))
					c.Feature("cli_-o_with_stdout_on_dev_null")
					if string(od) != res.Stdout {
						c.Violation(bin.Name+" -o FILE with standard output on /dev/null writes a different diff text than it prints on a pipe", map[string]any{"file": string(od), "pipe": res.Stdout})
						return
					}
				}
			}
			if aText != bText {
				c.Nontrivial(joinKey("cli", aText, bText, o.Name))
			}
		},
	})
	mon.Register(p)
}
