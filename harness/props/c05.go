package props

import (
	"fmt"

	jd "github.com/josephburnett/jd/v2"

	"verifharness/gen"
	"verifharness/mon"
	"verifharness/ref"
)

var OptMergePrec = OptSet{Name: "MERGE+Precision(0.1)", Opts: func() []jd.Option { return []jd.Option{jd.MERGE, jd.Precision(0.1)} }, Reading: ref.List, Merge: true, Eps: 0.1, HasEps: true}

var c05Opts = []OptSet{OptNone, OptSetO, OptMset, OptKeys1, OptMerge, OptSetMerge, OptMsMerge, OptKeysMerge, OptPrecision(0.1), OptPrecision(1.5), OptPrecision(1e-9), OptMergePrec}

// withinEpsInArray is the classifier of F9 (array part): at some pair of
// arrays met while walking a and b in parallel, two numbers differ but are
// within eps.
func withinEpsInArray(a, b any, eps float64, inArray bool) bool {
	switch x := a.(type) {
	case float64:
		y, ok := b.(float64)
		return ok && inArray && x != y && ref.EqPrec(x, y, eps)
	case []any:
		y, ok := b.([]any)
		if !ok {
			return false
		}
		for _, e := range x {
			for _, f := range y {
				if withinEpsInArray(e, f, eps, true) {
					return true
				}
			}
		}
	case map[string]any:
		y, ok := b.(map[string]any)
		if !ok {
			return false
		}
		for k, e := range x {
			if f, has := y[k]; has && withinEpsInArray(e, f, eps, inArray) {
				return true
			}
		}
	}
	return false
}

func c05Judge(c *mon.Ctx, aText, bText string, o OptSet, class string) {
	c.Input("a", aText)
	c.Input("b", bText)
	c.Input("options", o.Name)
	c.Feature("class:" + class)
	c.Feature("opt:" + o.Name)
	a, b := ref.MustJSON(aText), ref.MustJSON(bText)
	want := oracleEq(a, b, o)
	mkA, mkB := operand(c, aText, "a", 0.12), operand(c, bText, "b", 0.12)
	eq := mkA().Equals(mkB(), o.O()...)
	d := mkA().Diff(mkB(), o.O()...)
	empty := len(d) == 0
	if same := mkA(); len(same.Diff(same, o.O()...)) != 0 || !same.Equals(same, o.O()...) {
		c.Violation("a document diffed against itself (the very same node as both operands) is not equal / has a non-empty diff", map[string]any{"diff": ref.HunksString(Hunks(same.Diff(same, o.O()...)))})
		return
	}
	if aText != bText {
		c.Nontrivial(joinKey(aText, bText, o.Name))
	}
	if want {
		c.Feature("oracle_equal")
		if aText != bText {
			c.Feature("equal_but_textually_different")
		}
	} else {
		c.Feature("oracle_unequal")
	}
	extra := map[string]any{"jd_equals": eq, "diff_empty": empty, "oracle_equal": want, "diff": ref.HunksString(Hunks(d))}
	known := func(reason string) bool {
		if o.HasEps && withinEpsInArray(a, b, o.Eps, false) && want && eq && !empty {
			c.Known("F9", reason, extra)
			return true
		}
		return false
	}
	switch {
	case empty != eq:
		reason := fmt.Sprintf("Diff is %s but Equals is %v under the same options", map[bool]string{true: "empty", false: "non-empty"}[empty], eq)
		if !known(reason) {
			c.Violation(reason, extra)
		}
	case eq != want:
		c.Violation(fmt.Sprintf("Equals and Diff agree (%v) but the documents are %s under the %s reading", eq, map[bool]string{true: "equal", false: "different"}[want], o.Reading), extra)
	case empty != want:
		c.Violation("Diff emptiness disagrees with the oracle", extra)
	default:
		c.Sample(extra)
	}
}

// c05CLI checks the exit status of the three binaries for one pair.
func c05CLI(c *mon.Ctx, aText, bText string, o OptSet, yaml bool) {
	c.Input("a", aText)
	c.Input("b", bText)
	c.Input("options", o.Name)
	a, b := ref.MustJSON(aText), ref.MustJSON(bText)
	want := oracleEq(a, b, o)
	if aText != bText {
		c.Nontrivial(joinKey("cli", aText, bText, o.Name))
	}
	for _, bin := range Binaries {

		for _, format := range []string{"jd", "patch", "merge"} {
			if format == "merge" && !o.Merge || format != "merge" && o.Merge {
				continue
			}
			if format == "patch" && o.Reading != ref.List {
				continue
			}
			args := append([]string{}, cliFlags(o)...)
			if bin.V1 && len(o.Keys) > 0 && o.Name != "SET+SetKeys(id)" {
				args = append([]string{"-set"}, args...) // v1 reads arrays as sets only with -set
			}
			if format == "patch" {
				args = append(args, "-f", "patch")
			}
			if c.R.Chance(0.3) {
				args = append(args, "-o", "out.txt") // the exit status must not depend on where the diff is written
				c.Feature("cli_with_-o")
			}
			if c.R.Chance(0.3) {
				args = append(args, "-color") // nor on how it is rendered
				c.Feature("cli_with_-color")
			}
			if c.R.Chance(0.2) {
				// boolean flags spelled with a false value are flags that are not given
				for _, fl := range []string{"-set=false", "-mset=false"} {
					skip := false
					for _, x := range args {
						if x == "-set" && fl == "-set=false" || x == "-mset" && fl == "-mset=false" {
							skip = true
						}
					}
					if !skip {
						args = append([]string{fl}, args...)
					}
				}
				c.Feature("cli_with_false_flags")
			}
			args = append(args, "a.json", "b.json")
			res := RunCLI(c, bin, args, "", map[string]string{"a.json": aText, "b.json": bText})
			c.Feature("cli_runs")
			c.Feature("cli_bin:" + bin.Name)
			c.Feature(fmt.Sprintf("cli_status_%d", res.Status))
			extra := map[string]any{"binary": bin.Name, "argv": fmt.Sprint(args), "status": res.Status, "stdout": res.Stdout, "stderr": res.Stderr, "oracle_equal": want}
			if res.Status == 2 && format == "patch" && !want {
				// number-like keys / "-" cannot be expressed as JSON Pointer: a refusal is legitimate
				c.Feature("cli_patch_refused")
				continue
			}
			wantStatus := 1
			if want {
				wantStatus = 0
			}
			if res.Status != wantStatus {
				reason := fmt.Sprintf("%s %v exited %d; the inputs are %s under the flags, expected %d", bin.Name, args, res.Status,
					map[bool]string{true: "equal", false: "different"}[want], wantStatus)
				if o.HasEps && want && res.Status == 1 && withinEpsInArray(a, b, o.Eps, false) {
					c.Known("F9", reason, extra)
					continue
				}
				c.Violation(reason, extra)
			}
		}
	}
}


// sharedIdentityDoc builds an array (at the root or under a key) of objects in
// which several members share the value of "id" while differing elsewhere, and
// some lack "id" altogether: the SetKeys precondition does not hold, but a
// document is still equal to itself.
func sharedIdentityDoc(r *gen.RNG) any {
	var arr []any
	for k := r.Range(2, 5); k > 0; k-- {
		m := map[string]any{"v": float64(r.Intn(4))}
		if r.Chance(0.75) {
			m["id"] = float64(r.Intn(2))
		}
		if r.Chance(0.4) {
			m["w"] = gen.Pick(r, []any{"x", []any{1.0, 2.0}, map[string]any{"p": 1.0}})
		}
		arr = append(arr, m)
	}
	if r.Chance(0.5) {
		return map[string]any{"items": arr, "n": 1.0}
	}
	return arr
}

func init() {
	p := &mon.Property{
		ID: "C05",
		Rule: "library: (a, b, option set) pairs as in C04 (identical / equal-but-reordered / near miss / mutated / independent, confusable atoms exhaustively); " +
			"verdict compares len(Diff)==0, Equals and an independent oracle (ref.Canon / ref.EqPrec) pairwise; CLI: exit status of the three binaries " +
			"on a sample of the same pairs; non-trivial = operands differ textually; distinct = distinct (a, b, options)",
		Floors: map[string]int{"oracle_equal": 5000, "oracle_unequal": 5000, "equal_but_textually_different": 2000, "cli_runs": 500,
			"cli_status_0": 100, "cli_status_1": 100, "same_document_shared_identities": 3000, "cli_with_-color": 100, "cli_with_false_flags": 50, "values_moved_between_keys": 2000, "a_is_patch_result": 3000, "b_is_patch_result": 3000},
		Assumptions: []string{
			"oracle: ref.Canon under the reading of the option set; ref.EqPrec for Precision",
			"SetKeys inputs satisfy the key precondition; MERGE inputs include nulls in the library leg (the biconditional is not restricted to null-free documents), the CLI leg keeps them null-free",
			"CLI exit status 2 is accepted only for -f patch on keys JSON Pointer cannot express",
		},
		NeedsCLI: true,
	}
	for _, o := range c05Opts {
		o := o
		p.Strata = append(p.Strata, mon.Stratum{
			Name: "random/" + o.Name,
			N:    qt(12000, 625000),
			Run: func(c *mon.Ctx, i int) {
				prof := []gen.Profile{gen.PDefault, gen.PTiny, gen.PNulls, gen.PDeep}[i%4]
				if o.Merge && i%2 == 0 {
					prof.Scalars = withoutNull(prof.Scalars) // half null-free, half with nulls
				}
				if o.HasEps {
					prof.Scalars = append(append([]any{}, numbersNear...), "a", true, nil)
				}
				a, b, class := eqPair(c.R, o, prof)
				if i%9 == 8 && len(o.Keys) == 0 && !o.HasEps {
					a, b = gen.DeepChainPair(c.R, prof, false)
					class = "deep-chain"
				}
				c05Judge(c, ref.ToJSON(a), ref.ToJSON(b), o, class)
			},
		})
	}
	for _, o := range []OptSet{OptNone, OptSetO, OptMset, OptKeys1, OptSetMerge, OptMsMerge, OptMerge} {
		o := o
		nb := len(bulky)
		p.Strata = append(p.Strata, mon.Stratum{
			Name:       "exh-bulky/" + o.Name,
			N:          n(nb * nb * 3),
			Exhaustive: always,
			Run: func(c *mon.Ctx, i int) {
				// long strings differing only in the middle; bags whose counts differ by multiples of 256
				how := i % 3
				x, y := bulky[(i/3)/nb], bulky[(i/3)%nb]
				a, _ := wrapText(x, how)
				b, _ := wrapText(y, how)
				c.Feature("bulky_pairs")
				c05Judge(c, a, b, o, "bulky")
			},
		})
	}
	for _, o := range []OptSet{OptNone, OptSetO, OptMset, OptKeys1, OptSetMerge, OptMsMerge} {
		o := o
		nAtoms := len(confusable)
		p.Strata = append(p.Strata, mon.Stratum{
			Name:       "exh-confusable/" + o.Name,
			N:          n(nAtoms * nAtoms * 4),
			Exhaustive: always,
			Run: func(c *mon.Ctx, i int) {
				how := i % 4
				x, y := confusable[(i/4)/nAtoms], confusable[(i/4)%nAtoms]
				a, ok1 := wrapText(x, how)
				b, ok2 := wrapText(y, how)
				if !ok1 || !ok2 {
					c.Skip("void cannot be nested")
					return
				}
				c05Judge(c, a, b, o, "confusable")
			},
		})
	}
	for _, o := range []OptSet{OptKeys1, OptSetKeys1, OptKeys2} {
		o := o
		p.Strata = append(p.Strata, mon.Stratum{
			Name: "same-document-shared-identities/" + o.Name,
			N:    qt(3000, 150000),
			Run: func(c *mon.Ctx, i int) {
				// a document against itself (second parse of the same text): equal under every reading,
				// also when several members share a key value or lack the key
				a := sharedIdentityDoc(c.R)
				c.Feature("same_document_shared_identities")
				c05Judge(c, ref.ToJSON(a), ref.ToJSON(a), o, "same-document")
			},
		})
	}
	p.Strata = append(p.Strata, mon.Stratum{
		Name: "setkeys-values-moved-between-keys",
		N:    qt(3000, 150000),
		Run: func(c *mon.Ctx, i int) {
			// two documents that differ ONLY in which set key carries which value of one member (swapped, or moved
			// to the other key). Within each document identities stay unique, so open finding F21 (identity is
			// the unordered collection of key values) cannot merge members here; the documents differ, so the
			// diff must say so.
			r := c.R
			vals := []any{1.0, 2.0, "x", "y", true}
			x, y := vals[r.Intn(len(vals))], vals[r.Intn(len(vals))]
			for ref.Eq(x, y, ref.List) {
				y = vals[r.Intn(len(vals))]
			}
			m1 := map[string]any{"id": x, "k2": y, "v": float64(r.Intn(3))}
			m2 := map[string]any{"id": y, "k2": x, "v": m1["v"]}
			if i%3 == 1 {
				m1 = map[string]any{"id": x, "v": 0.0}
				m2 = map[string]any{"k2": x, "v": 0.0}
			}
			others := []any{map[string]any{"id": "p", "k2": "q", "v": 1.0}, "s", 7.0}[:r.Intn(4)]
			mk := func(m map[string]any) any {
				l := append([]any{m}, others...)
				if i%2 == 1 {
					return map[string]any{"list": l}
				}
				return l
			}
			c.Feature("values_moved_between_keys")
			c05Judge(c, ref.ToJSON(mk(m1)), ref.ToJSON(mk(m2)), OptKeys2, "values-moved-between-keys")
		},
	})
	p.Strata = append(p.Strata, mon.Stratum{
		Name: "precision-placement",
		N:    qt(6000, 250000),
		Run: func(c *mon.Ctx, i int) {
			eps := []float64{0.1, 0.5, 1e-9}[i%3]
			x := gen.Pick(c.R, []float64{0, 1, 2.5, -3, 100})
			delta := gen.Pick(c.R, []float64{0, eps / 2, eps * 0.999, eps * 1.5, eps * 2, -eps / 2, -eps * 1.5, eps, -eps})
			if delta == eps || delta == -eps {
				c.Feature("precision_exactly_at_the_tolerance")
			}
			y := x + delta
			if (i/12)%3 == 2 {
				x, y = -eps*gen.Pick(c.R, []float64{0.9, 0.6, 0.45}), eps*gen.Pick(c.R, []float64{0.9, 0.6, 0.45}) // straddling zero
				c.Feature("precision_opposite_signs")
			}
			var a, b any
			switch (i / 3) % 4 {
			case 0:
				a, b = x, y
			case 1:
				a, b = map[string]any{"k": x, "j": "s"}, map[string]any{"k": y, "j": "s"}
			case 2:
				a, b = map[string]any{"k": map[string]any{"n": x}}, map[string]any{"k": map[string]any{"n": y}}
			default:
				a, b = []any{1.0, x, "t"}, []any{1.0, y, "t"}
				c.Feature("precision_in_array")
			}
			c05Judge(c, ref.ToJSON(a), ref.ToJSON(b), OptPrecision(eps), "precision")
		},
	})
	p.Strata = append(p.Strata, mon.Stratum{
		Name: "cli-exit-status",
		CLI:  true,
		N:    qt(700, 37500),
		Run: func(c *mon.Ctx, i int) {
			o := c05Opts[i%len(c05Opts)]
			prof := []gen.Profile{gen.PDefault, gen.PTiny}[(i/len(c05Opts))%2]
			if o.Merge {
				prof.Scalars = withoutNull(prof.Scalars)
			}
			if o.HasEps {
				prof.Scalars = append(append([]any{}, numbersNear...), "a", true, nil)
			}
			a, b, _ := eqPair(c.R, o, prof)
			c05CLI(c, ref.ToJSON(a), ref.ToJSON(b), o, false)
		},
	})
	mon.Register(p)
}
