package props

import (
	"path/filepath"
	"os"
	"fmt"
	"strings"
	"sync"

	jd "github.com/josephburnett/jd/v2"

	"verifharness/gen"
	"verifharness/mon"
	"verifharness/ref"
)

// readOnly is one read-only API call on shared values; it returns its
// output as a string.
type readOnly struct {
	name string
	call func(A, B jd.JsonNode, d jd.Diff, opts []jd.Option) string
}

func okErr(s string, err error) string {
	if err != nil {
		return "error: " + err.Error()
	}
	return s
}

var readOnlyCalls = []readOnly{
	{"Render", func(A, B jd.JsonNode, d jd.Diff, _ []jd.Option) string { return d.Render() }},
	{"Render(COLOR)", func(A, B jd.JsonNode, d jd.Diff, _ []jd.Option) string { return d.Render(jd.COLOR) }},
	{"RenderPatch", func(A, B jd.JsonNode, d jd.Diff, _ []jd.Option) string { return okErr(d.RenderPatch()) }},
	{"RenderMerge", func(A, B jd.JsonNode, d jd.Diff, _ []jd.Option) string { return okErr(d.RenderMerge()) }},
	{"Json", func(A, B jd.JsonNode, d jd.Diff, _ []jd.Option) string { return A.Json() + "|" + B.Json() }},
	{"Yaml", func(A, B jd.JsonNode, d jd.Diff, _ []jd.Option) string { return A.Yaml() + "|" + B.Yaml() }},
	{"Json(SET)", func(A, B jd.JsonNode, d jd.Diff, _ []jd.Option) string { return A.Json(jd.SET) + "|" + B.Json(jd.SET) }},
	{"Yaml(MULTISET)", func(A, B jd.JsonNode, d jd.Diff, _ []jd.Option) string {
		return A.Yaml(jd.MULTISET) + "|" + B.Yaml(jd.MULTISET)
	}},
	{"Render(opts)", func(A, B jd.JsonNode, d jd.Diff, o []jd.Option) string { return d.Render(o...) }},
	{"Json(opts)", func(A, B jd.JsonNode, d jd.Diff, o []jd.Option) string { return A.Json(o...) + "|" + B.Json(o...) }},
	{"Diff", func(A, B jd.JsonNode, d jd.Diff, o []jd.Option) string { return Dump(A.Diff(B, o...)) }},
	{"Equals", func(A, B jd.JsonNode, d jd.Diff, o []jd.Option) string {
		return fmt.Sprint(A.Equals(B, o...), B.Equals(A, o...))
	}},
}

var renderers = readOnlyCalls[:5]

type c15Subject struct {
	aText, bText string
	o            OptSet
	src          string // "diff", "patch-text", "merge-text"
	text         string
}

func (s c15Subject) build() (A, B jd.JsonNode, d jd.Diff, err error) {
	A, B = ReadJ(s.aText), ReadJ(s.bText)
	switch s.src {
	case "patch-text":
		d, err = jd.ReadPatchString(s.text)
	case "merge-text":
		d, err = jd.ReadMergeString(s.text)
	default:
		d = A.Diff(B, s.o.O()...)
	}
	return
}

func c15Subj(c *mon.Ctx, i int) (c15Subject, bool) {
	r := c.R
	o := AllDiffOpts[i%len(AllDiffOpts)]
	prof := c01Profiles[(i/len(AllDiffOpts))%len(c01Profiles)]
	if o.Merge {
		prof = mergeProfiles[i%len(mergeProfiles)]
	}
	if i%4 == 3 {
		prof = prof.With(func(p *gen.Profile) { p.Keys = []string{"id", "ID", "Id", "a", "A", "b"}; p.PArr = 0.3 })
	}
	if i%8 == 5 {
		// keys that order differently as numbers and as spellings, next to keys that are not numbers
		prof = prof.With(func(p *gen.Profile) { p.Keys = []string{"9", "10", "2b", "1", "100", "a", "-1", "01", "1e+06", "1e3", "0x10"}; p.PArr = 0.2; p.MaxFan = 6 })
	}
	a, b := PairFor(r, o, prof)
	if len(o.Keys) > 0 && (i/len(AllDiffOpts))%2 == 1 {
		// members keep their key and change elsewhere: hunks below a keyed member, at the root or under a key
		a, b = keyedMemberPair(r, prof, o.Keys)
	}
	if i%13 == 12 {
		// numbers within and beyond a tolerance at the same positions of lists and objects
		o = []OptSet{OptPrecision(0.1), OptMergePrec, OptPrecision(0.5)}[(i/13)%3]
		prof = gen.PTiny.With(func(p *gen.Profile) { p.Scalars = append(append([]any{}, numbersNear...), "a", true) })
		a = gen.Doc(r, prof)
		b = gen.Mutate(r, prof, jitterNumbers(r, a, o.Eps))
		if r.Chance(0.5) {
			b = jitterNumbers(r, a, o.Eps)
		}
	}
	s := c15Subject{aText: ref.ToJSON(a), bText: ref.ToJSON(b), o: o, src: "diff"}
	if o.HasEps {
		return s, true
	}
	switch i % 7 {
	case 5:
		t, err := ReadJ(s.aText).Diff(ReadJ(s.bText)).RenderPatch()
		if err != nil {
			return s, false
		}
		s.o, s.src, s.text = OptNone, "patch-text", t
	case 6:
		// a merge patch document with several keys per level
		m := map[string]any{}
		for k := r.Range(3, 6); k > 0; k-- {
			key := gen.Pick(r, []string{"a", "b", "c", "d", "e", "f", "g"})
			switch r.Intn(3) {
			case 0:
				m[key] = nil
			case 1:
				inner := map[string]any{}
				for j := r.Range(2, 4); j > 0; j-- {
					inner[gen.Pick(r, []string{"p", "q", "r", "s", "t"})] = gen.Scalar(r, prof)
				}
				m[key] = inner
			default:
				m[key] = gen.Scalar(r, prof)
			}
		}
		s.o, s.src, s.text = OptMerge, "merge-text", ref.ToJSON(m)
	}
	return s, true
}

func c15Inputs(c *mon.Ctx, s c15Subject) {
	c.Input("a", s.aText)
	c.Input("b", s.bText)
	c.Input("options", s.o.Name)
	c.Input("diff_source", s.src)
	if s.text != "" {
		c.Input("text", s.text)
	}
}

// c15History runs a sequence of read-only calls on ONE set of values and
// checks repeatability, argument purity, and that the diff still patches.
func c15History(c *mon.Ctx, s c15Subject, seq []int) {
	c15Inputs(c, s)
	A, B, d, err := s.build()
	if err != nil {
		c.Skip("text not readable")
		return
	}
	if s.src == "diff" {
		// the Diff call that built the subject is itself a read-only call
		if Dump(A) != Dump(ReadJ(s.aText)) || Dump(B) != Dump(ReadJ(s.bText)) {
			c.Violation("Diff modified one of its operands (they no longer dump like fresh parses of the same texts)", map[string]any{"a_after": A.Json(), "b_after": B.Json()})
			return
		}
	}
	names := make([]string, len(seq))
	for i, k := range seq {
		names[i] = readOnlyCalls[k].name
	}
	c.Input("calls", strings.Join(names, ", "))
	// ONE option slice for the whole history, as a caller holding its options in
	// a variable would pass it (opts...); half the time it also carries a
	// render option after the diff options, and spare capacity
	mkOpts := func() []jd.Option { return append(make([]jd.Option, 0, 8), s.o.O()...) }
	if tail := c.R.Intn(4); tail >= 2 {
		ro := []jd.Option{jd.COLOR, jd.MERGE}[tail-2]
		if tail == 2 || s.o.Merge {
			mkOpts = func() []jd.Option { return append(append(make([]jd.Option, 0, 8), s.o.O()...), ro) }
			c.Feature("shared_option_slice_with_render_option")
		}
	}
	// reference outputs from values that are never touched by another call
	refOut := map[int]string{}
	for _, k := range seq {
		if _, ok := refOut[k]; !ok {
			A0, B0, d0, _ := s.build()
			refOut[k] = readOnlyCalls[k].call(A0, B0, d0, mkOpts())
		}
	}
	shared := mkOpts()
	// the dump covers the spare capacity too: a sibling slice of the caller may live there
	dumpOpts := Dump(shared[:cap(shared)])
	dumpA, dumpB, dumpD := Dump(A), Dump(B), Dump(d)
	for step, k := range seq {
		out := readOnlyCalls[k].call(A, B, d, shared)
		if x := Dump(shared[:cap(shared)]); x != dumpOpts {
			c.Violation(readOnlyCalls[k].name+" modified the option slice the caller passed (opts...)", map[string]any{"step": step, "options_before": dumpOpts, "options_after": x})
			return
		}
		c.Feature("read_only_calls")
		c.Feature("call:" + readOnlyCalls[k].name)
		c.Event()
		extra := map[string]any{"step": step, "call": readOnlyCalls[k].name, "output": out, "output_on_untouched_values": refOut[k]}
		if out != refOut[k] {
			c.Violation(fmt.Sprintf("%s returned a different output than on untouched values: after the earlier calls %v", readOnlyCalls[k].name, names[:step]), extra)
			return
		}
		if x := Dump(A); x != dumpA {
			c.Violation(readOnlyCalls[k].name+" modified document a", extra)
			return
		}
		if x := Dump(B); x != dumpB {
			c.Violation(readOnlyCalls[k].name+" modified document b", extra)
			return
		}
		if x := Dump(d); x != dumpD {
			extra["diff_before"] = dumpD
			extra["diff_after"] = x
			c.Violation(readOnlyCalls[k].name+" modified the diff it was given", extra)
			return
		}
	}
	c.Nontrivial(joinKey(s.aText, s.bText, s.o.Name, s.src, s.text, strings.Join(names, ",")))
	// the rendered-many-times diff still patches like a never-rendered one
	_, _, dFresh, _ := s.build()
	target := s.aText
	P1, e1 := ReadJ(target).Patch(d)
	P2, e2 := ReadJ(target).Patch(dFresh)
	if (e1 == nil) != (e2 == nil) {
		c.Violation("after being rendered the diff patches differently from a never-rendered copy (one fails)", map[string]any{"err_rendered": fmt.Sprint(e1), "err_fresh": fmt.Sprint(e2)})
		return
	}
	if e1 == nil {
		if !ref.Eq(Plain(P1), Plain(P2), ref.List) {
			c.Violation("after being rendered the diff gives a different document than a never-rendered copy", map[string]any{"rendered": P1.Json(), "fresh": P2.Json()})
			return
		}
		c.Feature("patched_after_rendering")
		sameAsB := ref.Eq(Plain(P1), ref.MustJSON(s.bText), s.o.Reading)
		if s.o.HasEps {
			sameAsB = ref.EqPrec(Plain(P1), ref.MustJSON(s.bText), s.o.Eps)
		}
		if s.src == "diff" && !sameAsB {
			c.Violation("after being rendered the diff no longer turns a into b", map[string]any{"patched": P1.Json()})
			return
		}
	}
	c.Sample(map[string]any{"outputs": refOut[seq[0]]})
}

// jitterNumbers returns a copy of v in which some numbers moved by less
// than eps, some by more, and the rest stayed.
func jitterNumbers(r *gen.RNG, v any, eps float64) any {
	switch t := v.(type) {
	case float64:
		switch r.Intn(4) {
		case 0:
			return t + eps*0.4
		case 1:
			return t - eps*0.3
		case 2:
			return t + eps*2.5
		}
		return t
	case []any:
		out := make([]any, len(t))
		for i := range t {
			out[i] = jitterNumbers(r, t[i], eps)
		}
		return out
	case map[string]any:
		out := map[string]any{}
		for _, k := range ref.SortedKeys(t) {
			out[k] = jitterNumbers(r, t[k], eps)
		}
		return out
	}
	return v
}

// all permutations of 0..n-1
func perms(n int) [][]int {
	if n == 1 {
		return [][]int{{0}}
	}
	var out [][]int
	for _, p := range perms(n - 1) {
		for i := 0; i <= len(p); i++ {
			q := append(append(append([]int{}, p[:i]...), n-1), p[i:]...)
			out = append(out, q)
		}
	}
	return out
}

var perms5 = perms(5)

func init() {
	p := &mon.Property{
		ID: "C15",
		Rule: "subjects are (a, b, option set) with the diff from Diff, or a diff read from JSON Patch / JSON Merge Patch text (merge documents with 3-6 keys per level); " +
			"(1) histories: random sequences (3-10) of the read-only calls Render, Render(COLOR), RenderPatch, RenderMerge, Json, Yaml, Diff, Equals on ONE set of values: every output must equal the output on untouched values (the calls of one history share ONE option slice passed as opts..., half the time with COLOR / MERGE after the diff options and spare capacity, which must come back unchanged; one subject in 13 uses Precision with numbers moved by less and by more than the tolerance), a type-accurate dump (%#v) of a, b and the diff must not change, and the diff must still patch like a never-rendered copy; all 120 orderings of the five renderers on a panel; " +
			"(2) the same calls issued concurrently by 8 goroutines on shared values under the Go race detector (any report = a write by a read-only API); " +
			"(3) determinism: each output recomputed 12 times from fresh parses in-process (Go randomises map iteration per range statement) and across 4 fresh processes of the real binary; non-trivial = every subject; distinct = distinct (subject, call sequence)",
		Floors: map[string]int{"read_only_calls": 100000, "patched_after_rendering": 10000, "call:RenderPatch": 10000, "call:RenderMerge": 10000,
			"determinism_recomputations": 50000, "race_goroutine_calls": 20000, "cross_process_runs": 400, "src:merge-text": 2000, "src:patch-text": 2000, "shared_option_slice_with_render_option": 3000, "opt_precision_subjects": 500, "partial_digest_collisions": 100, "same_content_different_handles": 100, "unusual_environment_repetitions": 1000},
		Assumptions: []string{
			"Patch is not claimed pure (it edits its receiver) and is always applied to a fresh parse",
			"the race detector only sees writes that actually execute on the generated subjects",
		},
		NeedsCLI: true,
	}
	p.Strata = append(p.Strata, mon.Stratum{
		Name: "histories",
		N:    qt(25000, 1500000),
		Run: func(c *mon.Ctx, i int) {
			s, ok := c15Subj(c, i)
			if !ok {
				c.Skip("subject not constructible")
				return
			}
			c.Feature("src:" + s.src)
			if s.o.HasEps {
				c.Feature("opt_precision_subjects")
			}
			seq := make([]int, c.R.Range(3, 10))
			for k := range seq {
				seq[k] = c.R.Intn(len(readOnlyCalls))
			}
			c15History(c, s, seq)
		},
	})
	p.Strata = append(p.Strata, mon.Stratum{
		Name:       "all-renderer-orderings",
		N:          n(len(perms5) * 50),
		Exhaustive: always,
		Run: func(c *mon.Ctx, i int) {
			panelIdx := i / len(perms5)
			// a fixed 50-subject panel (independent of the case index within the panel)
			pc := &mon.Ctx{R: gen.New(c.Seed, 0xC15, uint64(panelIdx))}
			s, ok := c15Subj(&mon.Ctx{R: pc.R}, panelIdx)
			if !ok {
				c.Skip("subject not constructible")
				return
			}
			if panelIdx%5 == 0 {
				// multi-add list hunks and merge deletions on purpose
				s = c15Subject{aText: `{"k":[1,2],"gone":1,"o":{"x":1}}`, bText: `{"k":[1,7,8,9,2],"o":{"y":2}}`, o: []OptSet{OptNone, OptMerge}[(panelIdx/5)%2], src: "diff"}
			}
			c15History(c, s, perms5[i%len(perms5)])
		},
	})
	p.Strata = append(p.Strata, mon.Stratum{
		Name: "determinism-in-process",
		N:    qt(8000, 450000),
		Run: func(c *mon.Ctx, i int) {
			s, ok := c15Subj(c, i*7+(i%2)*6) // half of them merge-text subjects
			if i%2 == 1 {
				s, ok = c15Subj(c, 6+7*i)
			}
			if !ok {
				c.Skip("subject not constructible")
				return
			}
			if i%40 == 39 {
				// members whose digests agree in four of their eight bytes, under the set and bag readings
				if pc := partialCollisions(); len(pc) > 0 {
					pr := pc[(i/40)%len(pc)]
					o := []OptSet{OptSetO, OptMset, OptSetMerge}[(i/40)%3]
					a := []any{pr[0], pr[1], "z", map[string]any{pr[0]: 1.0, pr[1]: 2.0}}
					b := []any{pr[1], "w", pr[0], map[string]any{pr[1]: 2.0, pr[0]: 1.0}}
					s = c15Subject{aText: ref.ToJSON(a), bText: ref.ToJSON(b), o: o, src: "diff"}
					c.Feature("partial_digest_collisions")
				}
			}
			c15Inputs(c, s)
			c.Feature("src:" + s.src)
			first := map[string]string{}
			// outputs are a function of the inputs, not of the process environment either: a few repetitions run with
			// the colour / locale / terminal variables tools commonly look at set to unusual values
			envs := map[int][][2]string{5: {{"CLICOLOR_FORCE", "1"}, {"FORCE_COLOR", "1"}, {"TERM", "xterm-256color"}}, 8: {{"NO_COLOR", "1"}, {"CLICOLOR", "0"}, {"TERM", "dumb"}},
				10: {{"LANG", "tr_TR.UTF-8"}, {"LC_ALL", "tr_TR.UTF-8"}, {"TZ", "Pacific/Kiritimati"}, {"COLORTERM", "truecolor"}}}
			for rep := 0; rep < 12; rep++ {
				if vars, ok := envs[rep]; ok && i%4 == 0 {
					for _, kv := range vars {
						os.Setenv(kv[0], kv[1])
					}
					c.Feature("unusual_environment_repetitions")
					defer func(vars [][2]string) {
						for _, kv := range vars {
							os.Unsetenv(kv[0])
						}
					}(vars)
				}
				A, B, d, err := s.build()
				if err != nil {
					c.Skip("text not readable")
					return
				}
				for _, ro := range readOnlyCalls {
					out := ro.call(A, B, d, s.o.O())
					c.Feature("determinism_recomputations")
					if rep == 0 {
						first[ro.name] = out
					} else if out != first[ro.name] {
						c.Violation(ro.name+" is not a deterministic function of its inputs: two fresh computations differ", map[string]any{"first": first[ro.name], "later": out, "repetition": rep})
						return
					}
				}
			}
			c.Nontrivial(joinKey("det", s.aText, s.bText, s.o.Name, s.text))
		},
	})
	p.Strata = append(p.Strata, mon.Stratum{
		Name:       "determinism-yaml-reader",
		N:          n(len(yamlHostile) + 6),
		Exhaustive: always,
		Run: func(c *mon.Ctx, i int) {
			// reading the same YAML text again and again gives the same document or the same refusal
			extraTexts := []string{"200: plain\n\"200\": quoted\n", "1: a\n\"1\": b\n1.0: c\n", "true: x\n\"true\": y\n", "a: 1\nA: 2\n", "? [1]\n: x\n? [1]\n: y\n", "k: &a {x: 1}\nj: *a\n"}
			var text string
			if i < len(yamlHostile) {
				text = yamlHostile[i]
			} else {
				text = extraTexts[i-len(yamlHostile)]
			}
			c.Input("yaml", text)
			c.Nontrivial("yaml" + text)
			first := ""
			for rep := 0; rep < 40; rep++ {
				var out string
				if pan := mon.Safe(func() {
					n, err := jd.ReadYamlString(text)
					if err != nil {
						out = "error" // the wording of a refusal is not an output the property speaks about
					} else {
						out = n.Json() + "|" + n.Yaml()
					}
				}); pan != "" {
					out = "panic"
				}
				c.Feature("determinism_recomputations")
				if rep == 0 {
					first = out
				} else if out != first {
					c.Violation("reading the same YAML text twice gives different results", map[string]any{"first": first, "later": out})
					return
				}
			}
		},
	})
	p.Strata = append(p.Strata, mon.Stratum{
		Name: "determinism-across-processes",
		CLI:  true,
		N:    qt(120, 9000),
		Run: func(c *mon.Ctx, i int) {
			s, ok := c15Subj(c, 6+7*i)
			if !ok {
				c.Skip("subject not constructible")
				return
			}
			c15Inputs(c, s)
			var outs []string
			for rep := 0; rep < 4; rep++ {
				res := RunCLI(c, BinV2, []string{"-t", "merge2jd", "m.json"}, "", map[string]string{"m.json": s.text})
				c.Feature("cross_process_runs")
				outs = append(outs, fmt.Sprint(res.Status)+"|"+res.Stdout)
				if outs[rep] != outs[0] {
					c.Violation("the same merge patch translated by two fresh processes gives different output", map[string]any{"first": outs[0], "later": outs[rep]})
					return
				}
			}
			// set / multiset hunks listing several object members: their order must not depend on the process
			objs := func(n int) []any {
				out := []any{}
				for k := 0; k < n; k++ {
					out = append(out, map[string]any{gen.Pick(c.R, []string{"a", "b", "c"}): float64(c.R.Intn(50)), "n": float64(k)})
				}
				return out
			}
			sa, sb := ref.ToJSON(objs(2)), ref.ToJSON(append(objs(2), objs(6)...))
			for _, flag := range []string{"-set", "-mset", "-set -mset"} {
				var first string
				if flag == "-set -mset" {
					// both flags: whichever wins, it must be the same one in every process (duplicates make the readings differ)
					sa, sb = `{"tags":["a","a","b"]}`, `{"tags":["b","a"]}`
				}
				for rep := 0; rep < 4; rep++ {
					r := RunCLI(c, BinV2, append(strings.Fields(flag), "sa.json", "sb.json"), "", map[string]string{"sa.json": sa, "sb.json": sb})
					c.Feature("cross_process_runs")
					if rep == 0 {
						first = r.Stdout
					} else if r.Stdout != first {
						c.Violation("the same inputs diffed with "+flag+" by two fresh processes give different output", map[string]any{"a": sa, "b": sb, "first": first, "later": r.Stdout})
						return
					}
				}
			}
			res := RunCLI(c, BinV2, []string{"-f", "merge", "a.json", "b.json"}, "", map[string]string{"a.json": s.aText, "b.json": s.bText})
			for rep := 0; rep < 2; rep++ {
				res2 := RunCLI(c, BinV2, []string{"-f", "merge", "a.json", "b.json"}, "", nil)
				c.Feature("cross_process_runs")
				if res2.Stdout != res.Stdout || res2.Status != res.Status {
					c.Violation("the same inputs diffed by two fresh processes give different output", map[string]any{"first": res.Stdout, "later": res2.Stdout})
					return
				}
			}
			// output is a function of the CONTENT of the inputs: the same bytes handed in as two names of one file,
			// as a file and its copy, through /dev/stdin, or with standard output on /dev/null and -o, print the same
			if i%3 == 0 {
				for _, bin := range []Binary{BinV2, BinTop} {
					for _, f := range []string{"jd", "patch", "merge"} {
						fl := []string{"-f", f}
						cp := RunCLI(c, bin, append(append([]string{}, fl...), "a.json", "acopy.json"), "", map[string]string{"a.json": s.aText, "acopy.json": s.aText})
						same := RunCLI(c, bin, append(append([]string{}, fl...), "a.json", "./a.json"), "", nil)
						dev := RunCLI(c, bin, append(append([]string{}, fl...), "a.json", "/dev/stdin"), s.aText, nil)
						os.Remove(filepath.Join(c.WorkDir, "o.txt"))
						RunCLIDevNull(c, bin, append(append([]string{"-o", "o.txt"}, fl...), "a.json", "acopy.json"), "", nil)
						ofile, _ := os.ReadFile(filepath.Join(c.WorkDir, "o.txt"))
						c.Feature("cross_process_runs")
						c.Feature("same_content_different_handles")
						want := fmt.Sprint(cp.Status) + "|" + cp.Stdout
						for name, got := range map[string]string{"two names of one file": fmt.Sprint(same.Status) + "|" + same.Stdout, "/dev/stdin": fmt.Sprint(dev.Status) + "|" + dev.Stdout, "-o with stdout on /dev/null": fmt.Sprint(cp.Status) + "|" + string(ofile)} {
							if got != want {
								c.Violation("the same content handed in as "+name+" gives another output than a file and its byte-identical copy ("+bin.Name+" -f "+f+")", map[string]any{"copy": want, "other": got})
								return
							}
						}
					}
				}
			}
			c.Nontrivial(joinKey("xproc", s.text, s.aText, s.bText))
		},
	})
	p.Strata = append(p.Strata, mon.Stratum{
		Name: "race-shared-values",
		Race: true,
		N:    qt(1500, 90000),
		Run: func(c *mon.Ctx, i int) {
			s, ok := c15Subj(c, i)
			if !ok {
				c.Skip("subject not constructible")
				return
			}
			c15Inputs(c, s)
			A, B, d, err := s.build()
			if err != nil {
				c.Skip("text not readable")
				return
			}
			var wg sync.WaitGroup
			for g := 0; g < 8; g++ {
				wg.Add(1)
				go func(g int) {
					defer wg.Done()
					for k := 0; k < len(readOnlyCalls); k++ {
						ro := readOnlyCalls[(k+g)%len(readOnlyCalls)]
						_ = mon.Safe(func() { _ = ro.call(A, B, d, s.o.O()) })
					}
				}(g)
			}
			wg.Wait()
			c.FeatureN("race_goroutine_calls", 8*len(readOnlyCalls))
			c.Nontrivial(joinKey("race", s.aText, s.bText, s.o.Name, s.text))
		},
	})
	mon.Register(p)
}
