package props

import (
	"fmt"
	"strconv"
	"strings"

	jd "github.com/josephburnett/jd/v2"

	"verifharness/gen"
	"verifharness/mon"
	"verifharness/ref"
)

// editAt returns a deep copy of doc in which the value at path (keys,
// indices and keyed members only) is replaced by f(value).
func editAt(doc any, path []ref.PathEl, f func(any) any) (any, bool) {
	doc = ref.Clone(doc)
	if len(path) == 0 {
		return f(doc), true
	}
	cur := doc
	for i, el := range path {
		last := i == len(path)-1
		switch el.Kind {
		case ref.KKey:
			o, ok := cur.(map[string]any)
			if !ok {
				return nil, false
			}
			c, has := o[el.Key]
			if !has {
				return nil, false
			}
			if last {
				o[el.Key] = f(c)
				return doc, true
			}
			cur = c
		case ref.KIndex:
			l, ok := cur.([]any)
			if !ok || el.Index < 0 || el.Index >= len(l) {
				return nil, false
			}
			if last {
				l[el.Index] = f(l[el.Index])
				return doc, true
			}
			cur = l[el.Index]
		case ref.KSetKeys:
			l, ok := cur.([]any)
			if !ok {
				return nil, false
			}
			found := -1
			for j, e := range l {
				if ref.MatchKeys(e, el.Keys) {
					found = j
					break
				}
			}
			if found < 0 {
				return nil, false
			}
			if last {
				l[found] = f(l[found])
				return doc, true
			}
			cur = l[found]
		default:
			return nil, false
		}
	}
	return nil, false
}

// perturbEdited perturbs, in a copy of a, exactly the array the hunk edits:
// shift, drop/insert before the edit position, change a neighbour or the
// removed element, truncate so the index is past the end, or empty it.
func perturbEdited(r *gen.RNG, p gen.Profile, a any, h ref.Hunk) (any, string, bool) {
	if len(h.Path) == 0 || h.Path[len(h.Path)-1].Kind != ref.KIndex {
		return nil, "", false
	}
	i := h.Path[len(h.Path)-1].Index
	kind := ""
	out, ok := editAt(a, h.Path[:len(h.Path)-1], func(v any) any {
		l, isArr := v.([]any)
		if !isArr {
			return v
		}
		other := func(x any) any {
			if r.Chance(0.4) {
				// a near twin: the same string with a final line break, the neighbouring float64, ...
				if y := changeNode(r, p, ref.Clone(x)); !ref.Eq(x, y, ref.List) {
					return y
				}
			}
			for t := 0; t < 8; t++ {
				if y := gen.Scalar(r, p); !ref.Eq(x, y, ref.List) {
					return y
				}
			}
			return []any{x}
		}
		switch r.Intn(8) {
		case 0:
			kind = "shift-right"
			return append([]any{gen.Scalar(r, p)}, l...)
		case 1:
			kind = "shift-left"
			if len(l) > 0 {
				return l[1:]
			}
		case 2:
			kind = "change-before-neighbour"
			if i-1 >= 0 && i-1 < len(l) {
				l[i-1] = other(l[i-1])
				return l
			}
		case 3:
			kind = "change-after-neighbour"
			if j := i + len(h.Remove); j >= 0 && j < len(l) {
				l[j] = other(l[j])
				return l
			}
		case 4:
			kind = "change-removed-element"
			if len(h.Remove) > 0 && i >= 0 && i < len(l) {
				j := i + r.Intn(len(h.Remove)) // any element of the removed run, not only its first
				if j >= len(l) {
					j = i
				}
				if j > i {
					kind = "change-later-removed-element"
				}
				l[j] = other(l[j])
				return l
			}
		case 5:
			kind = "truncate-before-index"
			if i > 0 && i-1 <= len(l) {
				return l[:i-1]
			}
		case 6:
			kind = "empty"
			return []any{}
		default:
			kind = "append"
			return append(l, gen.Scalar(r, p))
		}
		kind = "unchanged"
		return l
	})
	return out, kind, ok
}

func failClass(err error) string {
	s := err.Error()
	if i := strings.Index(s, ": "); i >= 0 {
		s = s[i+2:]
	}
	for _, k := range []string{"before context", "after context", "remove", "index", "expected", "path element", "multiple", "set remove", "multiset remove", "no member", "inside keyed member", "append"} {
		if strings.HasPrefix(s, k) {
			return k
		}
	}
	if len(s) > 24 {
		s = s[:24]
	}
	return s
}

// judgePatch compares jd's Patch of sub (a diff) on target with the
// reference interpreter. It returns a violation reason, or "" if they
// agree. known receives (id, reason) for catalogued deviations.
func judgePatch(c *mon.Ctx, sub jd.Diff, targetText string, reading ref.Reading, viaText bool) (reason string, knownID string, extra map[string]any) {
	hs := Hunks(sub)
	target := ref.MustJSON(targetText)
	want, werr := ref.RefPatch(target, hs, ref.Dev{})
	d := sub
	if viaText {
		text := sub.Render()
		if c.R.Chance(0.3) {
			text = strings.TrimSuffix(text, "\n") // as produced by d=$(jd a b)
			c.Feature("text_without_final_newline")
		}
		rd, err := jd.ReadDiffString(text)
		if err != nil {
			return "the rendered sub-diff is not readable: " + err.Error(), "", map[string]any{"diff": text}
		}
		d = rd
		c.Feature("patched_via_text")
	} else {
		c.Feature("patched_in_memory")
	}
	var P jd.JsonNode
	var err error
	var got any
	pan := mon.Safe(func() {
		P, err = ReadJ(targetText).Patch(d)
		if err == nil && P != nil {
			got = Plain(P)
		}
	})
	extra = map[string]any{"diff": ref.HunksString(hs), "target": targetText}
	if werr != nil {
		extra["reference"] = "rejects: " + werr.Error()
	} else {
		extra["reference"] = "applies, result " + ref.ToJSON(want)
	}
	if pan != "" {
		extra["panic"] = pan
		return "Patch panicked", "", extra
	}
	if err == nil && P == nil {
		return "Patch returned nil node and nil error", "", extra
	}
	if err != nil {
		extra["jd"] = "rejects: " + err.Error()
	} else {
		extra["jd"] = "applies, result " + ref.ToJSON(got)
	}
	switch {
	case werr != nil && err != nil:
		c.Feature("both_reject")
		c.Feature("reject:" + failClass(werr))
		return "", "", extra
	case werr == nil && err == nil:
		if !ref.Eq(got, want, reading) {
			return "Patch applied but the result differs from what the hunks say", "", extra
		}
		c.Feature("both_apply")
		return "", "", extra
	case werr != nil && err == nil:
		reason = "Patch applied a diff whose expectations do not hold on the target (silently different document): " + werr.Error()
		if f, ok := werr.(*ref.Fail); ok && f.InKeyedMember {
			// F4: deviation model = the failing nested hunk is a no-op
			dev, derr := ref.RefPatch(target, hs, ref.Dev{KeyedNestedFailureNoop: true})
			if derr == nil && ref.Eq(got, dev, reading) {
				return reason, "F4", extra
			}
		}
		return reason, "", extra
	default:
		return "Patch rejected a diff whose every expectation holds on the target: " + err.Error(), "", extra
	}
}

func subsetOf(d jd.Diff, mask int) jd.Diff {
	var out jd.Diff
	for k := range d {
		if mask&(1<<k) != 0 {
			out = append(out, d[k])
		}
	}
	return out
}

func editedDepth(hs []ref.Hunk) int {
	max := -1
	for _, h := range hs {
		if n := len(h.Path); n > 0 && h.Path[n-1].Kind == ref.KIndex && n-1 > max {
			max = n - 1
		}
	}
	return max
}

func hasElementContext(hs []ref.Hunk) bool {
	for _, h := range hs {
		for _, b := range h.Before {
			if !ref.IsVoid(b) {
				return true
			}
		}
		for _, a := range h.After {
			if !ref.IsVoid(a) {
				return true
			}
		}
	}
	return false
}

func c03Case(c *mon.Ctx, aText, bText string, prof gen.Profile, exhaustiveSubsets bool) {
	c.Input("a", aText)
	c.Input("b", bText)
	a := ref.MustJSON(aText)
	full := ReadJ(aText).Diff(ReadJ(bText))
	if len(full) == 0 {
		c.Skip("empty diff")
		return
	}
	hsFull := Hunks(full)
	if dpt := editedDepth(hsFull); dpt >= 0 {
		c.Feature(fmt.Sprintf("edited_array_depth_%d", dpt))
		if dpt >= 1 {
			c.Feature("edited_array_depth>=1")
		}
		if dpt >= 2 {
			c.Feature("edited_array_depth>=2")
		}
	}
	n := len(full)
	var masks []int
	allMask := 1<<n - 1
	maxAll := 4
	if c.Tier == mon.Thorough {
		maxAll = 6
	}
	if n <= maxAll && exhaustiveSubsets {
		for m := 1; m <= allMask; m++ {
			masks = append(masks, m)
		}
		c.Feature("all_subsets_enumerated")
	} else {
		if n > 20 {
			n = 20
			allMask = 1<<n - 1
		}
		masks = append(masks, allMask)
		masks = append(masks, 1+c.R.Intn(allMask))
		masks = append(masks, 1<<c.R.Intn(n))
	}
	if n >= 2 && c.R.Chance(0.3) {
		// the hunks in another order (a hand-edited patch): every index and context line then refers to the
		// document as left by the hunks written before it, in THAT order; jd must agree with the reference
		perm := make([]int, n)
		for k := range perm {
			perm[k] = k
		}
		gen.Shuffle(c.R, perm)
		mkPerm := func() jd.Diff {
			full := ReadJ(aText).Diff(ReadJ(bText))
			var out jd.Diff
			for _, k := range perm {
				if k < len(full) {
					out = append(out, full[k])
				}
			}
			return out
		}
		c.Feature("permuted_hunk_order")
		reason, knownID, extra := judgePatch(c, mkPerm(), aText, ref.List, c.R.Chance(0.5))
		if reason != "" && knownID == "" {
			extra["hunk_order"] = fmt.Sprint(perm)
			c.Violation(reason, extra)
			return
		}
	}
	for _, mask := range masks {
		// fresh diff values for every leg
		d := subsetOf(ReadJ(aText).Diff(ReadJ(bText)), mask)
		hs := Hunks(d)
		if mask != allMask {
			c.Feature("proper_subset")
		}
		// targets
		type tgt struct{ text, kind string }
		targets := []tgt{{aText, "a"}}
		if c.R.Chance(0.3) {
			targets = append(targets, tgt{bText, "b"})
		}
		if t, kind, ok := perturbEdited(c.R, prof, a, hs[0]); ok {
			targets = append(targets, tgt{ref.ToJSON(t), "edited:" + kind})
		}
		targets = append(targets, tgt{ref.ToJSON(gen.Perturb(c.R, prof, a)), "random-perturbation"})
		for _, t := range targets {
			c.Feature("target:" + t.kind)
			c.Feature("patch_events")
			c.Event()
			viaText := c.R.Chance(0.5)
			reason, knownID, extra := judgePatch(c, subsetOf(ReadJ(aText).Diff(ReadJ(bText)), mask), t.text, ref.List, viaText)
			if t.text != aText && hasElementContext(hs) {
				c.Nontrivial(joinKey(aText, bText, fmt.Sprint(mask), t.text))
			}
			if reason == "" {
				if t.kind != "a" {
					c.Sample(extra)
				}
				continue
			}
			extra["target_kind"] = t.kind
			extra["hunk_subset_mask"] = mask
			if knownID != "" {
				c.Known(knownID, reason, extra)
			} else {
				c.Violation(reason, extra)
			}
			return
		}
	}
}

// longNumbers: float64 values that need 16 or 17 significant digits, each with
// the value its 15-digit rounding denotes.
var longNumbers = func() []any {
	var out []any
	for _, x := range []float64{0.1 + 0.2, 1.0 / 3, 2.0 / 3, 1234567890123456, 9007199254740991, 1e21 / 7, 0.1234567890123456789, -98765.432101234567, 1 - 1e-16} {
		y, _ := strconv.ParseFloat(strconv.FormatFloat(x, 'g', 15, 64), 64)
		out = append(out, x, y)
	}
	return append(out, "s", 1.0)
}()

func init() {
	p := &mon.Property{
		ID: "C03",
		Rule: "cases are (a, b) list-mode pairs; for each, the full diff and sub-sequences of its hunks (all 2^n-1 for n<=4 in the exhaustive strata, the full diff + a random subset + a single hunk otherwise) " +
			"are applied, in memory or after a render/re-read, to targets a, b, a perturbed exactly at the edited array (shift, neighbour changed, removed element changed, truncated, emptied) and a randomly perturbed at any depth; one stratum uses numbers that need 16-17 significant digits next to their 15-digit roundings; " +
			"every Patch event is compared with the reference hunk interpreter (apply/reject must agree, results must be equal); non-trivial = target differs from a and some hunk has element context; distinct = distinct (a, b, subset, target)",
		Floors: map[string]int{"patch_events": 100000, "both_apply": 20000, "both_reject": 20000, "edited_array_depth>=1": 5000, "edited_array_depth>=2": 2000,
			"reject:before context": 500, "reject:after context": 500, "reject:remove": 500, "reject:index": 100, "proper_subset": 10000, "patched_via_text": 10000, "patched_in_memory": 10000, "long_mantissa_pairs": 3000, "several_context_lines": 3000, "permuted_hunk_order": 3000},
		Assumptions: []string{
			"the reference interpreter (ref.RefPatch) encodes the documented hunk semantics: strict key hunks expect the old value or absence; list hunks use the index in the current document, before/after context equal to the adjacent elements or the array boundary, every removed value equal to the element then at the index",
			"only hunks jd itself generated (and sub-sequences of them) are used, as the property states; hand-written shapes belong to C02/C13",
		},
	}
	profiles := []gen.Profile{gen.PDefault, gen.PTiny, gen.PDeep, gen.PNulls}
	p.Strata = append(p.Strata, mon.Stratum{
		Name: "random-pairs",
		N:    qt(30000, 900000),
		Run: func(c *mon.Ctx, i int) {
			prof := profiles[i%len(profiles)]
			a, b := gen.Pair(c.R, prof)
			c03Case(c, ref.ToJSON(a), ref.ToJSON(b), prof, i%3 == 0)
		},
	})
	p.Strata = append(p.Strata, mon.Stratum{
		Name: "numbers-needing-17-digits",
		N:    qt(6000, 300000),
		Run: func(c *mon.Ctx, i int) {
			// numbers whose shortest exact spelling has 16-17 significant digits, next to their
			// 15-digit roundings: an expectation stated in a patch text must be the exact number
			prof := gen.PTiny.With(func(p *gen.Profile) { p.Scalars = longNumbers })
			arrA := gen.Array(c.R, prof, c.R.Range(1, 6), 0.1)
			arrB := mutateScalarArray(c.R, prof, arrA)
			w := i % 3
			c.Feature("long_mantissa_pairs")
			c03Case(c, ref.ToJSON(gen.Wrap(arrA, w)), ref.ToJSON(gen.Wrap(arrB, w)), prof, false)
		},
	})
	p.Strata = append(p.Strata, mon.Stratum{
		Name: "several-context-lines",
		N:    qt(4000, 200000),
		Run: func(c *mon.Ctx, i int) {
			// hunks with two before- or after-context lines (legal in the format, written by hand or by other
			// tools): each line is compared with the element at its own distance from the edit
			r := c.R
			n := r.Range(4, 8)
			arr := make([]any, n)
			for k := range arr {
				arr[k] = float64(k + 1)
				if r.Chance(0.2) {
					arr[k] = gen.Pick(r, []any{"s", true, -1.0})
				}
			}
			at := r.Range(2, n-2)
			nb, na := r.Range(1, 2), r.Range(1, 2)
			if at-nb < 0 {
				nb = at
			}
			if at+1+na > n {
				na = n - at - 1
			}
			e := jd.DiffElement{Path: jd.Path{jd.PathIndex(at)}, Remove: []jd.JsonNode{Node(arr[at])}, Add: []jd.JsonNode{Node("new")}}
			for k := at - nb; k < at; k++ {
				e.Before = append(e.Before, Node(arr[k]))
			}
			for k := at + 1; k <= at+na; k++ {
				e.After = append(e.After, Node(arr[k]))
			}
			w := i % 3
			if w > 0 {
				e.Path = append(jd.Path{jd.PathKey("k")}, e.Path...)
			}
			wrap := func(l []any) any {
				if w > 0 {
					return map[string]any{"k": l, "z": 1.0}
				}
				return l
			}
			target := append([]any{}, arr...)
			kind := "a"
			switch r.Intn(4) {
			case 1:
				if at-nb >= 0 && nb == 2 {
					target[at-2], target[at-1] = target[at-1], target[at-2]
					kind = "before-lines-swapped"
				}
			case 2:
				if na == 2 {
					target[at+1], target[at+2] = target[at+2], target[at+1]
					kind = "after-lines-swapped"
				}
			case 3:
				target[at-nb] = "other"
				kind = "far-before-line-changed"
			}
			c.Feature("several_context_lines")
			c.Feature("target:" + kind)
			tText := ref.ToJSON(wrap(target))
			c.Input("target", tText)
			c.Nontrivial(joinKey("ctx2", tText, fmt.Sprint(at, nb, na, w)))
			mk := func() jd.Diff { return jd.Diff{e} }
			c.Input("diff", ref.HunksString(Hunks(mk())))
			reason, knownID, extra := judgePatch(c, mk(), tText, ref.List, r.Chance(0.5))
			if reason != "" && knownID == "" {
				c.Violation(reason, extra)
			}
		},
	})
	p.Strata = append(p.Strata, mon.Stratum{
		Name: "long-arrays",
		N:    qt(2000, 100000),
		Run: func(c *mon.Ctx, i int) {
			x, y := gen.LongArrayPair(c.R)
			c.Feature("long_array_pairs")
			c03Case(c, ref.ToJSON(gen.Wrap(x, i%3)), ref.ToJSON(gen.Wrap(y, i%3)), gen.PTiny, false)
		},
	})
	p.Strata = append(p.Strata, mon.Stratum{
		Name: "nested-arrays-biased",
		N:    qt(20000, 600000),
		Run: func(c *mon.Ctx, i int) {
			prof := gen.PTiny
			arrA := gen.Array(c.R, prof, c.R.Range(1, 7), 0.15)
			arrB := mutateScalarArray(c.R, prof, arrA)
			w := 1 + i%3
			c03Case(c, ref.ToJSON(gen.Wrap(arrA, w)), ref.ToJSON(gen.Wrap(arrB, w)), prof, true)
		},
	})
	for w, name := range []string{"root", "under-key", "in-array", "array-in-object-in-array"} {
		w := w
		p.Strata = append(p.Strata, mon.Stratum{
			Name: "exh-k3n4-all-subsets/" + name,
			N: func(t mon.Tier) int {
				if t == mon.Thorough || w < 2 {
					return len(arraysK3N4) * len(arraysK3N4)
				}
				return len(arraysK3N4) * len(arraysK3N4) / 4
			},
			Exhaustive: func(t mon.Tier) bool { return t == mon.Thorough || w < 2 },
			Run: func(c *mon.Ctx, i int) {
				if c.Tier != mon.Thorough && w >= 2 {
					i = i * 4
				}
				x, y := arraysK3N4[i/len(arraysK3N4)], arraysK3N4[i%len(arraysK3N4)]
				c03Case(c, ref.ToJSON(gen.Wrap(x, w)), ref.ToJSON(gen.Wrap(y, w)), gen.PTiny, true)
			},
		})
	}
	mon.Register(p)
}
