package props

import (
	"fmt"
	"strconv"
	"strings"

	jd "github.com/josephburnett/jd/v2"

	"verifharness/gen"
	"verifharness/mon"
	"verifharness/ref"
)

var patchProfiles = []gen.Profile{
	gen.PDefault, gen.PTiny, gen.PDeep, gen.PNulls,
	gen.PHostile,
	gen.PHostile.With(func(p *gen.Profile) { p.Keys = append(append([]string{}, gen.KeysHostile...), gen.KeysNumberish...) }),
	gen.PNumbers,
	gen.PSyntaxy,
}

// unexpressible: the diff mentions a key JSON Pointer cannot carry
// unambiguously (number-like per strconv.Atoi, or "-") or a set path.
func unexpressible(hs []ref.Hunk) bool {
	for _, h := range hs {
		for _, e := range h.Path {
			switch e.Kind {
			case ref.KKey:
				if _, err := strconv.Atoi(e.Key); err == nil || e.Key == "-" {
					return true
				}
			case ref.KIndex:
			default:
				return true
			}
		}
	}
	return false
}

func c09Case(c *mon.Ctx, aText, bText string, prof gen.Profile) {
	c.Input("a", aText)
	c.Input("b", bText)
	a, b := ref.MustJSON(aText), ref.MustJSON(bText)
	mk := func() jd.Diff { return ReadJ(aText).Diff(ReadJ(bText)) }
	if c.Index%7 == 3 {
		// both operands built by Patch (from each other's perturbations), not re-parsed: what a program holds after patching
		seedA, seedB := c.R.U64(), c.R.U64()
		pa, okA := viaPatch(gen.New(seedA), a)
		pb, okB := viaPatch(gen.New(seedB), b)
		if okA && okB && pa != nil && pb != nil {
			mk = func() jd.Diff {
				x, _ := viaPatch(gen.New(seedA), a)
				y, _ := viaPatch(gen.New(seedB), b)
				return x.Diff(y)
			}
			c.Feature("operands_built_by_patch")
		}
	}
	hs := Hunks(mk())
	diffFeatures(c, hs)
	txt, err := mk().RenderPatch()
	c.Input("json_patch", txt)
	if c.Index%4 == 1 {
		// the chain Render -> ReadDiffString -> RenderPatch: the diff a user saved as text translates like the one in memory
		if rd, rerr := jd.ReadDiffString(mk().Render()); rerr == nil {
			txt2, err2 := rd.RenderPatch()
			c.Feature("reread_diff_rendered")
			if (err == nil) != (err2 == nil) || (err == nil && txt2 != txt) {
				c.Violation("RenderPatch of the re-read native diff differs from RenderPatch of the diff in memory", map[string]any{"in_memory": fmt.Sprint(txt, err), "reread": fmt.Sprint(txt2, err2)})
				return
			}
		}
	}
	extra := map[string]any{"native_diff": ref.HunksString(hs)}
	if unexpressible(hs) {
		c.Feature("expect_refusal")
		if err == nil {
			c.Violation("RenderPatch translated a diff whose paths JSON Pointer cannot express instead of refusing", extra)
		}
		return
	}
	if err != nil {
		c.Violation("RenderPatch refused an expressible list-mode diff: "+err.Error(), extra)
		return
	}
	if len(hs) > 0 {
		c.Nontrivial(joinKey(aText, bText))
	}
	ops, perr := ref.ParsePatch(txt)
	if perr != nil {
		c.Violation("rendered JSON Patch is not a well-formed RFC 6902 document: "+perr.Error(), extra)
		return
	}
	for _, o := range ops {
		c.Feature("op:" + o.Op)
		if _, err := ref.ParsePointer(o.Path); err != nil {
			c.Violation("rendered JSON Patch has an invalid JSON Pointer: "+err.Error(), extra)
			return
		}
		if (o.Op == "test" || o.Op == "add") && !o.HasValue {
			c.Violation("rendered "+o.Op+" op has no value", extra)
			return
		}
	}
	got, aerr := ref.Apply6902(a, ops)
	if aerr != nil {
		c.Violation("the rendered JSON Patch does not apply to a under RFC 6902: "+aerr.Error(), extra)
		return
	}
	if !ref.Eq(got, b, ref.List) {
		extra["rfc_result"] = ref.ToJSON(got)
		c.Violation("the rendered JSON Patch, evaluated on a, does not yield b", extra)
		return
	}
	c.Feature("rfc_gives_b")
	// other targets on which the native diff applies
	for t := 0; t < 3; t++ {
		var target any
		if t == 0 && len(hs) > 0 {
			if x, _, ok := perturbEdited(c.R, prof, a, hs[0]); ok {
				target = x
			}
		}
		if target == nil {
			target = gen.Perturb(c.R, prof, a)
		}
		tText := ref.ToJSON(target)
		var P jd.JsonNode
		var nerr error
		nd := mk()
		if t%2 == 1 {
			// the very diff value that was rendered, rendered once more and then applied natively
			_, _ = nd.RenderPatch()
			c.Feature("native_diff_reused_after_rendering")
		}
		if pan := mon.Safe(func() { P, nerr = ReadJ(tText).Patch(nd) }); pan != "" || nerr != nil || P == nil {
			c.Feature("target_native_rejects")
			continue
		}
		c.Feature("target_native_applies")
		c.Event()
		native := Plain(P)
		r, rerr := ref.Apply6902(target, ops)
		ex := map[string]any{"native_diff": ref.HunksString(hs), "target": tText, "native_result": ref.ToJSON(native)}
		if rerr != nil {
			c.Violation("the native diff applies to a target but the JSON Patch does not: "+rerr.Error(), ex)
			return
		}
		if !ref.Eq(r, native, ref.List) {
			ex["rfc_result"] = ref.ToJSON(r)
			c.Violation("native diff and JSON Patch give different results on the same target", ex)
			return
		}
		if !ref.Eq(target, a, ref.List) {
			c.Feature("target_differs_from_a_and_applies")
		}
	}
	c.Sample(extra)
}

func init() {
	p := &mon.Property{
		ID: "C09",
		Rule: "cases are list-mode (a, b) pairs incl. pointer-hostile keys ('/', '~', '~0', '~1', '~01', empty, unicode, number-like, '-'), multi-add / multi-remove hunks with context, nested arrays, void sides; " +
			"RenderPatch output is parsed and evaluated by the harness's RFC 6901/6902 evaluator on a (must give b) and on perturbed targets where the native diff applies (must give the same result); refusal is demanded exactly for number-like keys and '-', also through both binaries (`-f patch`: rendering with status 1 or refusal with status 2 and empty stdout); " +
			"non-trivial = non-empty expressible diff; distinct = distinct (a, b)",
		Floors: map[string]int{"rfc_gives_b": 20000, "expect_refusal": 250, "target_native_applies": 5000, "target_differs_from_a_and_applies": 1000,
			"hunk_list_multi": 3000, "op:test": 10000, "op:remove": 10000, "op:add": 10000, "hostile_key_in_diff": 1000, "cli_expect_refusal": 15, "escape_lookalike_pairs": 2000, "cli_expect_rendering": 40},
		NeedsCLI: true,
		Assumptions: []string{
			"RFC 6902 reading of root replacement (DESIGN 5.9): `remove \"\"` makes the document absent, the only legal next op is `add \"\"`, an absent document at the end is the empty (void) document",
			"the reference evaluator implements test / add / remove only (the ops jd emits) with the RFC 6901 array-index grammar",
		},
	}
	p.Strata = append(p.Strata, mon.Stratum{
		Name: "random-pairs",
		N:    qt(40000, 5000000),
		Run: func(c *mon.Ctx, i int) {
			prof := patchProfiles[i%len(patchProfiles)]
			a, b := gen.Pair(c.R, prof)
			if i%len(patchProfiles) >= 4 {
				c.Feature("hostile_key_in_diff")
			}
			if i%8 == 7 {
				a, b = gen.DeepChainPair(c.R, prof, false)
				c.Feature("deep_chain_pairs")
			}
			c09Case(c, ref.ToJSON(a), ref.ToJSON(b), prof)
		},
	})
	p.Strata = append(p.Strata, mon.Stratum{
		Name: "escape-lookalikes",
		N:    qt(3000, 150000),
		Run: func(c *mon.Ctx, i int) {
			// keys and values made of the characters JSON escapes, and of texts that LOOK like escapes
			// (a backslash followed by u0026): any post-processing of the rendered text shows here
			look := []any{"\\u0026", "write \\u003c for <", "<", "&", ">", "\\", "\"", "\\\\u003e", "a\\nb", "\u2028", "tab\there"}
			prof := gen.PTiny.With(func(p *gen.Profile) {
				p.Scalars = look
				p.Keys = []string{"\\u0026", "<", "a&b", "\\", "k"}
			})
			a, b := gen.Pair(c.R, prof)
			c.Feature("escape_lookalike_pairs")
			c09Case(c, ref.ToJSON(a), ref.ToJSON(b), prof)
		},
	})
	p.Strata = append(p.Strata, mon.Stratum{
		Name: "long-arrays",
		N:    qt(3000, 300000),
		Run: func(c *mon.Ctx, i int) {
			x, y := gen.LongArrayPair(c.R)
			c.Feature("long_array_pairs")
			c09Case(c, ref.ToJSON(gen.Wrap(x, i%4)), ref.ToJSON(gen.Wrap(y, i%4)), gen.PTiny)
		},
	})
	for w, name := range []string{"root", "under-key", "in-array", "array-in-object-in-array"} {
		w := w
		p.Strata = append(p.Strata, mon.Stratum{
			Name:       "exh-k3n4/" + name,
			N:          n(len(arraysK3N4) * len(arraysK3N4)),
			Exhaustive: always,
			Run: func(c *mon.Ctx, i int) {
				x, y := arraysK3N4[i/len(arraysK3N4)], arraysK3N4[i%len(arraysK3N4)]
				c09Case(c, ref.ToJSON(gen.Wrap(x, w)), ref.ToJSON(gen.Wrap(y, w)), gen.PTiny)
			},
		})
	}
	p.Strata = append(p.Strata, mon.Stratum{
		Name: "path-rendering-collisions",
		N:    qt(3000, 60000),
		Run: func(c *mon.Ctx, i int) {
			r := c.R
			t1, t2 := gen.Pick(r, []string{"a", "b", "f", "x"}), gen.Pick(r, []string{"a", "b", "k", "y"})
			sep := gen.Pick(r, []string{" ", "/", ",", ".", "~1", "~"})
			v, w := gen.Scalar(r, gen.PTiny), gen.Scalar(r, gen.PTiny)
			a := map[string]any{t1: map[string]any{t2: v}, t1 + sep + t2: []any{v, 1.0}}
			b := map[string]any{t1: map[string]any{t2: w}, t1 + sep + t2: []any{w, 1.0, 2.0}}
			c09Case(c, ref.ToJSON(a), ref.ToJSON(b), gen.PTiny)
		},
	})
	p.Strata = append(p.Strata, mon.Stratum{
		Name: "cli-render-or-refuse",
		CLI:  true,
		N:    qt(240, 6000),
		Run: func(c *mon.Ctx, i int) {
			// through the binaries: what the library renders is printed with status 1, what it
			// refuses (number-like keys, "-", set paths) ends with status 2 and nothing on stdout
			prof := patchProfiles[5] // hostile and number-like keys
			a, b := gen.Pair(c.R, prof)
			var flags []string
			var opts []jd.Option
			switch i % 6 {
			case 4:
				flags, opts = []string{"-set"}, []jd.Option{jd.SET}
			case 5:
				flags, opts = []string{"-mset"}, []jd.Option{jd.MULTISET}
			}
			aText, bText := ref.ToJSON(a), ref.ToJSON(b)
			c.Input("a", aText)
			c.Input("b", bText)
			c.Input("flags", fmt.Sprint(flags))
			d := ReadJ(aText).Diff(ReadJ(bText), opts...)
			if len(d) == 0 {
				c.Skip("no difference")
				return
			}
			want, err := d.RenderPatch()
			wantStatus := 1
			if err != nil {
				wantStatus = 2
				c.Feature("cli_expect_refusal")
			} else {
				c.Feature("cli_expect_rendering")
			}
			c.Nontrivial(joinKey("cli", aText, bText, fmt.Sprint(flags)))
			for _, bin := range []Binary{BinV2, BinTop} {
				res := RunCLI(c, bin, append(append([]string{}, flags...), "-f", "patch", "a.json", "b.json"), "", map[string]string{"a.json": aText, "b.json": bText})
				extra := map[string]any{"binary": bin.Name, "status": res.Status, "stdout": res.Stdout, "stderr": res.Stderr, "library": fmt.Sprint(want, err)}
				if res.Status != wantStatus {
					c.Violation(fmt.Sprintf("jd -f patch exited %d where the library %s", res.Status, map[int]string{1: "renders a JSON Patch (status 1)", 2: "refuses the path (status 2)"}[wantStatus]), extra)
					return
				}
				if wantStatus == 2 && strings.TrimSpace(res.Stdout) != "" {
					c.Violation("jd -f patch printed a document although the path is refused", extra)
					return
				}
				if wantStatus == 1 {
					got, perr := ref.FromJSON(res.Stdout)
					wv, _ := ref.FromJSON(want)
					if perr != nil || !ref.Eq(got, wv, ref.List) {
						c.Violation("jd -f patch printed something else than the library's JSON Patch", extra)
						return
					}
				}
				c.Feature("cli_runs")
				if i%5 == 0 {
					// "no difference" is rendered as the empty JSON Patch [] whichever way equal inputs are handed in
					same := RunCLI(c, bin, append(append([]string{}, flags...), "-f", "patch", "a.json", "./a.json"), "", nil)
					if v, err := ref.FromJSON(same.Stdout); same.Status != 0 || err != nil || !ref.Eq(v, []any{}, ref.List) {
						c.Violation("jd -f patch on one file under two names does not print the empty JSON Patch", map[string]any{"binary": bin.Name, "status": same.Status, "stdout": same.Stdout})
						return
					}
					c.Feature("cli_same_file")
				}
			}
		},
	})
	p.Strata = append(p.Strata, mon.Stratum{
		Name:       "fuzz-corpus",
		N:          n(len(FuzzCorpus) * len(FuzzCorpus)),
		Exhaustive: always,
		Run: func(c *mon.Ctx, i int) {
			c09Case(c, FuzzCorpus[i/len(FuzzCorpus)], FuzzCorpus[i%len(FuzzCorpus)], gen.PDefault)
		},
	})
	mon.Register(p)
}

var _ = fmt.Sprint
