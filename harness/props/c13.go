package props

import (
	"fmt"
	"os"
	"os/exec"
	"regexp"
	"strings"

	jd "github.com/josephburnett/jd/v2"

	"verifharness/gen"
	"verifharness/mon"
	"verifharness/ref"
)

var c13Panel = []string{``, `null`, `true`, `0`, `1.5`, `""`, `"x"`, `[]`, `[1]`, `[1,2]`, `[1,2,3]`, `[1,2,3,4,5,6,7,8]`, `[[1,2],[3]]`, `[[],[[]]]`, `[[1],[2],[3]]`,
	`{}`, `{"a":1}`, `{"a":[1,2,3]}`, `{"a":{"a":[1]}}`, `{"a":[[1,2]]}`, `{"a":null,"b":[]}`, `[{"id":1},{"id":2}]`, `[{"id":1,"a":[1,2]},{"id":2,"a":{}}]`,
	`{"a":[{"id":1,"a":1}]}`, `[null,null]`, `[1,[2,[3,[4]]]]`, `{"a":{"a":{"a":{"a":1}}}}`, `["a","a","a"]`, `[{},{}]`, `[[{"id":1}]]`, `{"":{"":[]}}`,
	`[1,"a",true,null,{},[]]`, `{"a":"x","b":"y"}`, `[0.5]`, `[1e30]`, `{"id":1}`, `[{"id":1,"id2":2}]`, `[[1,2,3],[1,2,3]]`, `{"a":[]}`, `[[]]`}

var c13PathEls = []string{`"a"`, `""`, `-9223372036854775808`, `-2`, `-1`, `0`, `1`, `2`, `3`, `7`, `8`, `9`, `2147483648`, `3000000000`, `1e30`, `-1e30`, `0.5`, `1.7`, `1e-9`,
	`{}`, `[]`, `{"id":1}`, `{"id":9}`, `[{"id":1}]`, `{"id":[1]}`, `{"a":1,"id":1}`}

var c13Values = []string{`1`, `2`, `"a"`, `null`, `[1,2]`, `{"a":1}`, `{"id":1}`, `[]`, `{}`, `{"id":1,"a":1}`, `9`}

var c13Contexts = [][2][]string{{nil, nil}, {{"["}, nil}, {nil, {"]"}}, {{"["}, {"]"}}, {{"  1"}, nil}, {nil, {"  2"}}, {{"  1"}, {"  2"}}, {{"  1", "  2"}, {"  3", "  1"}}, {{"[", "  1"}, {"  2", "]"}}, {{"  1", "["}, {"]", "  1"}}}

// hostileDiffText builds a structurally valid diff text with an arbitrary path.
func hostileDiffText(r *gen.RNG, pathLen int) string {
	els := make([]string, pathLen)
	for i := range els {
		els[i] = gen.Pick(r, c13PathEls)
	}
	var b strings.Builder
	merge := r.Chance(0.25)
	if merge {
		b.WriteString("^ {\"Merge\":true}\n")
	}
	b.WriteString("@ [" + strings.Join(els, ",") + "]\n")
	ctx := gen.Pick(r, c13Contexts)
	for _, l := range ctx[0] {
		b.WriteString(l + "\n")
	}
	nr, na := r.Intn(3), r.Intn(3)
	if nr+na == 0 {
		na = 1
	}
	for i := 0; i < nr; i++ {
		b.WriteString("- " + gen.Pick(r, c13Values) + "\n")
	}
	for i := 0; i < na; i++ {
		if merge && r.Chance(0.3) {
			b.WriteString("+\n")
		} else {
			b.WriteString("+ " + gen.Pick(r, c13Values) + "\n")
		}
	}
	for _, l := range ctx[1] {
		b.WriteString(l + "\n")
	}
	return b.String()
}

// exerciseDiff applies a read diff to documents and renders it in every
// format; any panic is a violation.
func exerciseDiff(c *mon.Ctx, how string, d jd.Diff, docs []string) bool {
	for _, x := range docs {
		c.Feature("patch_calls")
		c.Event()
		var err error
		var P jd.JsonNode
		pan, finished := mon.SafeBounded(func() {
			var n jd.JsonNode
			n, err = jd.ReadJsonString(x)
			if err != nil {
				return
			}
			P, err = n.Patch(d)
			if err == nil && P != nil {
				_ = P.Json()
				_ = P.Yaml()
			} else {
				// a refused patch returns an error value; the document it was tried on is still a document
				_ = n.Json()
				_ = n.Yaml()
				_ = n.Equals(n)
				_, _ = n.Patch(jd.Diff{})
			}
		}, 20)
		if !finished {
			c.Violation("applying a successfully read "+how+" to a small document did not return within 20 s of CPU time (the call keeps spinning)", map[string]any{"document": x, "diff": ref.HunksString(Hunks(d))})
			return false
		}
		if pan != "" {
			c.Violation("panic while applying a successfully read "+how+" to a document (or while using the document after the patch was refused)", map[string]any{"document": x, "panic": pan})
			return false
		}
		if err != nil {
			c.Feature("patch_error_returned")
		} else {
			c.Feature("patch_result_returned")
		}
	}
	if pan := mon.Safe(func() {
		_ = d.Render()
		_ = d.Render(jd.COLOR)
		_, _ = d.RenderPatch()
		_, _ = d.RenderMerge()
	}); pan != "" {
		c.Violation("panic while rendering a successfully read "+how, map[string]any{"panic": pan})
		return false
	}
	return true
}

type reader struct {
	name string
	read func(string) (jd.Diff, error)
}

var diffReaders = []reader{{"jd diff", jd.ReadDiffString}, {"JSON Patch", jd.ReadPatchString}, {"JSON Merge Patch", jd.ReadMergeString}}

// mutateText applies line- and byte-level damage to a valid text.
func mutateText(r *gen.RNG, s string) string {
	if r.Chance(0.08) {
		// the same text as a Windows editor saves it: CR LF line ends, sometimes with blank lines
		t := strings.ReplaceAll(s, "\n", "\r\n")
		switch r.Intn(4) {
		case 0:
			t += "\r\n"
		case 1:
			t = "\r\n" + t
		case 2:
			t = strings.Replace(t, "\r\n", "\r\n\r\n", 1)
		}
		return t
	}
	lines := strings.Split(s, "\n")
	for k := r.Range(1, 3); k > 0; k-- {
		switch r.Intn(14) {
		case 0:
			if len(lines) > 1 {
				i := r.Intn(len(lines))
				lines = append(lines[:i], lines[i+1:]...)
			}
		case 1:
			i := r.Intn(len(lines))
			lines = append(lines[:i+1], lines[i:]...)
		case 2:
			if len(lines) > 1 {
				i, j := r.Intn(len(lines)), r.Intn(len(lines))
				lines[i], lines[j] = lines[j], lines[i]
			}
		case 3:
			i := r.Intn(len(lines))
			if len(lines[i]) > 0 {
				lines[i] = string(gen.Pick(r, []byte("@^+- []x{"))) + lines[i][1:]
			}
		case 4:
			i := r.Intn(len(lines))
			if len(lines[i]) > 2 {
				lines[i] = lines[i][:r.Intn(len(lines[i]))]
			}
		case 5:
			i := r.Intn(len(lines))
			lines[i] = strings.Replace(lines[i], "1", gen.Pick(r, []string{"1e999", "-0", "99999999999999999999", "1.5", "-7", "0x10", "01"}), 1)
		case 6:
			i := r.Intn(len(lines))
			lines[i] += gen.Pick(r, []string{"\r", "\x00", " ", "\t", ",", "]", "}", "\"", "\xff"})
		case 7:
			i := r.Intn(len(lines))
			lines[i] = strings.Replace(lines[i], "[", "[[", 1)
		case 8:
			i := r.Intn(len(lines))
			lines[i] = strings.Replace(lines[i], "\"", "", 1)
		case 9:
			i := r.Intn(len(lines))
			lines[i] = strings.Replace(lines[i], gen.Pick(r, []string{"test", "remove", "add", "op", "path", "value", "Merge", "true"}), gen.Pick(r, []string{"replace", "move", "copy", "Op", "", "null", "1", "false"}), 1)
		case 10:
			i := r.Intn(len(lines))
			lines[i] = strings.Replace(lines[i], "/", gen.Pick(r, []string{"//", "/~", "/~2", "/-/", "", "/-1/", "/1e3/"}), 1)
		case 11:
			i := r.Intn(len(lines))
			lines[i] = strings.Replace(lines[i], ":", gen.Pick(r, []string{"::", ":[", ":{", ""}), 1)
		case 12:
			lines = append([]string{gen.Pick(r, []string{"^ {}", "^ {\"Merge\":1}", "^ []", "^ {\"X\":true}", "@ {}", "@ 1", "@", "^", "[", "]", " 1", "+", "-"})}, lines...)
		default:
			lines = append(lines, gen.Pick(r, []string{"@ []", "^ {\"Merge\":true}", "[", "]", "  1", "+ ", "- ", "+", "@ [", "@ [1,", "x"}))
		}
	}
	return strings.Join(lines, "\n")
}

var yamlHostile = []string{"- .inf\n", "- -.inf\n", "a: .nan\n", ".inf", "? [1,2]\n: 3\n", "1: 2\n", "true: 1\n", "null: 1\n", "a: &x [1]\nb: *x\n", "a: &x {b: *x}\n",
	"<<: {a: 1}\nb: 2\n", "a: {<<: {b: 1}}\n", "---\na: 1\n---\nb: 2\n", "- !!binary aGk=\n", "- !!set {a, b}\n", "- 2001-12-14t21:59:43.10-05:00\n", "- 0x1F\n", "- 0o17\n",
	"- 1_000\n", "- 190:20:30\n", "a: |\n  x\n  y\n", "a: >\n  x\n", "- 18446744073709551615\n", "- 9223372036854775808\n", "- -9223372036854775809\n", "{a: [1, {b: ~}]}", "[", "{", "a: b: c\n",
	"\t- 1\n", "- - - - - - 1\n", "a:\n  - b:\n    - c: 1\n", "%YAML 1.1\n---\n1\n", "--- !!map\n? a\n: b\n", "- *undefined\n", "&a [*a]\n", "\"\\x00\"", "'it''s'", "- ? x\n", "~", "- ~\n", "{? {a: 1} : 2}\n"}

func c13CLI(c *mon.Ctx, args []string, stdin string, files map[string]string, expectErr bool) {
	for _, bin := range []Binary{BinV2, BinTop} {
		res := RunCLI(c, bin, args, stdin, files)
		c.Feature("cli_runs")
		c.Event()
		extra := map[string]any{"binary": bin.Name, "argv": fmt.Sprint(args), "status": res.Status, "stderr": res.Stderr, "stdout": res.Stdout}
		for k, v := range files {
			extra["file:"+k] = v
		}
		if res.Timeout {
			// a wall-clock deadline is never a verdict: the run becomes inconclusive and is looked at by hand
			c.Inconclusive("CLI run hit the 240 s watchdog: " + fmt.Sprint(args))
			return
		}
		if HasCrashMarkers(res.Stderr) {
			c.Violation("the CLI printed a Go crash (stack trace) instead of a one-line error", extra)
			return
		}
		if res.Status < 0 || res.Status > 2 {
			c.Violation(fmt.Sprintf("the CLI exited with status %d (not 0, 1 or 2)", res.Status), extra)
			return
		}
		c.Feature(fmt.Sprintf("cli_status_%d", res.Status))
		if expectErr && res.Status != 2 {
			c.Violation(fmt.Sprintf("the library rejects this input but the CLI exited %d instead of 2", res.Status), extra)
			return
		}
		if res.Status == 2 && strings.TrimSpace(res.Stderr) == "" {
			c.Violation("the CLI exited 2 without any message", extra)
			return
		}
	}
}

func init() {
	p := &mon.Property{
		ID: "C13",
		Rule: "hostile workloads with a crash oracle (recover around every public entry point; worker death attributed through the per-case journal; CLI stderr scanned for Go crash markers): " +
			"(1) structurally valid diffs with arbitrary paths (negative, fractional, huge, out-of-range indices, wrong container kinds, set/multiset/keyed elements anywhere, paths of length 1-3) x context shapes x 0-2 removes/adds x merge flag, each applied to a 40-document panel; " +
			"(2) valid jd / JSON Patch / JSON Merge Patch / JSON / YAML texts damaged at line and byte level, then read, applied and rendered in every format; (3) hostile YAML (.inf, .nan, non-string keys, anchors, merge keys, multi-document, huge integers); " +
			"(4) the same material through both binaries (-p, -t, -yaml). non-trivial = the reader accepted the text (so Patch/Render ran) ; distinct = distinct texts",
		Floors: map[string]int{"patch_calls": 500000, "patch_error_returned": 100000, "patch_result_returned": 20000, "read_accepted": 20000, "read_rejected": 10000,
			"cli_runs": 1000, "patch_sequences_read": 5000, "cli_status_2": 300, "yaml_read_ok": 10, "valid_diff_on_malformed_document": 40, "non_utf8_inputs": 10},
		Assumptions: []string{
			"a hang is reported as inconclusive by the driver's watchdog, never as a violation by elapsed time",
			"'one-line message' is decided as: exit status 2, non-empty stderr, and no Go crash markers (panic:, fatal error:, goroutine N [running])",
			"v1 (lib) robustness is exercised only through -v2=false exit status in C14, not here (the property anchors v2)",
		},
		NeedsCLI: true,
	}
	p.Strata = append(p.Strata, mon.Stratum{
		Name: "hostile-paths-x-panel",
		N:    qt(30000, 400000),
		Run: func(c *mon.Ctx, i int) {
			text := hostileDiffText(c.R, i%4) // path lengths 0 (the root) to 3
			if i%9 == 0 {
				// two hunks: whatever the first one is, the reader flushes it when the second begins
				text += hostileDiffText(c.R, (i/9)%3)
			}
			c.Input("diff", text)
			var d jd.Diff
			var err error
			if pan := mon.Safe(func() { d, err = jd.ReadDiffString(text) }); pan != "" {
				c.Violation("ReadDiffString panicked", map[string]any{"panic": pan})
				return
			}
			if err != nil {
				c.Feature("read_rejected")
				return
			}
			c.Feature("read_accepted")
			c.Nontrivial(text)
			if exerciseDiff(c, "jd diff", d, c13Panel) && i%1000 == 0 {
				c.Sample(nil)
			}
		},
	})
	p.Strata = append(p.Strata, mon.Stratum{
		Name:       "single-element-paths-exhaustive",
		N:          n(len(c13PathEls) * len(c13Contexts) * 2),
		Exhaustive: always,
		Run: func(c *mon.Ctx, i int) {
			el := c13PathEls[i/(len(c13Contexts)*2)]
			ctx := c13Contexts[(i/2)%len(c13Contexts)]
			for _, body := range []string{"- 1\n", "+ 1\n", "- 1\n+ 2\n", "- 1\n- 2\n+ 1\n+ 2\n", "- {\"id\":1}\n+ {\"id\":1,\"a\":1}\n"} {
				text := "@ [" + el + "]\n" + strings.Join(ctx[0], "\n")
				if len(ctx[0]) > 0 {
					text += "\n"
				}
				text += body + strings.Join(ctx[1], "\n")
				if i%2 == 1 {
					text = "^ {\"Merge\":true}\n@ [\"a\"," + el + "]\n" + body
				}
				c.Input("diff", text)
				var d jd.Diff
				var err error
				if pan := mon.Safe(func() { d, err = jd.ReadDiffString(text) }); pan != "" {
					c.Violation("ReadDiffString panicked", map[string]any{"panic": pan})
					return
				}
				if err != nil {
					c.Feature("read_rejected")
					continue
				}
				c.Feature("read_accepted")
				c.Nontrivial(text)
				if !exerciseDiff(c, "jd diff", d, c13Panel) {
					return
				}
			}
		},
	})
	// all sequences of 1-3 ops over a small op alphabet (index paths, key paths, '-', root)
	patchOps := []string{
		`{"op":"test","path":"/0","value":1}`, `{"op":"test","path":"/1","value":2}`, `{"op":"test","path":"/2","value":3}`, `{"op":"test","path":"/a","value":1}`, `{"op":"test","path":"","value":1}`,
		`{"op":"remove","path":"/0","value":1}`, `{"op":"remove","path":"/1","value":2}`, `{"op":"remove","path":"/a"}`, `{"op":"remove","path":""}`,
		`{"op":"add","path":"/0","value":9}`, `{"op":"add","path":"/1","value":9}`, `{"op":"add","path":"/-","value":9}`, `{"op":"add","path":"/a","value":9}`, `{"op":"add","path":"","value":9}`,
		`{"op":"test","path":"/a/0","value":1}`, `{"op":"add","path":"/a/1","value":9}`, `{"op":"replace","path":"/0","value":9}`, `{"op":"test","path":"/-","value":1}`, `{"op":"test","path":"/01","value":1}`,
	}
	nOps := len(patchOps)
	p.Strata = append(p.Strata, mon.Stratum{
		Name:       "json-patch-op-sequences",
		N:          n(nOps + nOps*nOps + nOps*nOps*nOps),
		Exhaustive: always,
		Run: func(c *mon.Ctx, i int) {
			var ops []string
			switch {
			case i < nOps:
				ops = []string{patchOps[i]}
			case i < nOps+nOps*nOps:
				j := i - nOps
				ops = []string{patchOps[j/nOps], patchOps[j%nOps]}
			default:
				j := i - nOps - nOps*nOps
				ops = []string{patchOps[j/(nOps*nOps)], patchOps[(j/nOps)%nOps], patchOps[j%nOps]}
			}
			text := "[" + strings.Join(ops, ",") + "]"
			c.Input("json_patch", text)
			var d jd.Diff
			var err error
			if pan := mon.Safe(func() { d, err = jd.ReadPatchString(text) }); pan != "" {
				c.Violation("ReadPatchString panicked", map[string]any{"panic": pan})
				return
			}
			c.Feature("patch_sequences_read")
			if err != nil {
				c.Feature("read_rejected")
				return
			}
			c.Feature("read_accepted")
			c.Nontrivial(text)
			exerciseDiff(c, "JSON Patch", d, []string{`[1,2,3]`, `{"a":[1,2]}`, `1`, `[1]`, `{"a":1}`, `[]`})
		},
	})
	p.Strata = append(p.Strata, mon.Stratum{
		Name: "damaged-valid-texts",
		N:    qt(40000, 1000000),
		Run: func(c *mon.Ctx, i int) {
			prof := patchProfiles[i%4]
			a, b := gen.Pair(c.R, prof)
			aText, bText := ref.ToJSON(a), ref.ToJSON(b)
			var text string
			k := i % 3
			switch k {
			case 0:
				o := AllDiffOpts[(i/3)%len(AllDiffOpts)]
				if o.Merge {
					o = OptNone
				}
				text = ReadJ(aText).Diff(ReadJ(bText), o.O()...).Render()
			case 1:
				t, err := ReadJ(aText).Diff(ReadJ(bText)).RenderPatch()
				if err != nil {
					t = `[{"op":"add","path":"/a","value":1}]`
				}
				text = strings.ReplaceAll(t, "},{", "},\n{")
			default:
				t, err := ReadJ(aText).Diff(ReadJ(bText), jd.MERGE).RenderMerge()
				if err != nil {
					t = `{"a":null}`
				}
				text = strings.ReplaceAll(t, ",", ",\n")
			}
			if i%7 != 0 {
				text = mutateText(c.R, text)
			}
			c.Input("format", diffReaders[k].name)
			c.Input("text", text)
			var d jd.Diff
			var err error
			if pan := mon.Safe(func() { d, err = diffReaders[k].read(text) }); pan != "" {
				c.Violation("reading a "+diffReaders[k].name+" panicked", map[string]any{"panic": pan})
				return
			}
			if err != nil {
				c.Feature("read_rejected")
				return
			}
			c.Feature("read_accepted")
			c.Feature("read_accepted:" + diffReaders[k].name)
			c.Nontrivial(text)
			docs := []string{aText, bText, ref.ToJSON(gen.Perturb(c.R, prof, a)), c13Panel[c.R.Intn(len(c13Panel))], c13Panel[c.R.Intn(len(c13Panel))]}
			exerciseDiff(c, diffReaders[k].name, d, docs)
		},
	})
	p.Strata = append(p.Strata, mon.Stratum{
		Name: "documents-json-yaml",
		N:    qt(20000, 400000),
		Run: func(c *mon.Ctx, i int) {
			var text string
			yaml := i%2 == 0
			switch {
			case i < 2*len(yamlHostile):
				text = yamlHostile[i/2]
			case i < 2*len(yamlHostile)+40:
				depth := []int{50, 500, 5000, 10001, 20000}[(i/2)%5]
				text = strings.Repeat("[", depth) + strings.Repeat("]", depth)
				c.Feature("deep_nesting_cases")
				if (i/10)%2 == 0 {
					text = strings.Repeat(`{"a":`, depth) + "1" + strings.Repeat("}", depth)
				}
			default:
				doc := gen.Doc(c.R, patchProfiles[i%5])
				if yaml {
					text = ReadJ(ref.ToJSON(doc)).Yaml()
				} else {
					text = ref.ToJSON(doc)
				}
				text = mutateText(c.R, text)
			}
			c.Input("text", text)
			c.Input("reader", map[bool]string{true: "ReadYamlString", false: "ReadJsonString"}[yaml])
			var nnode jd.JsonNode
			var err error
			pan := mon.Safe(func() {
				if yaml {
					nnode, err = jd.ReadYamlString(text)
				} else {
					nnode, err = jd.ReadJsonString(text)
				}
			})
			if pan != "" {
				c.Violation("reading a document panicked", map[string]any{"panic": pan})
				return
			}
			if err != nil {
				c.Feature("read_rejected")
				return
			}
			c.Feature("read_accepted")
			if yaml {
				c.Feature("yaml_read_ok")
			}
			c.Nontrivial(text)
			if pan := mon.Safe(func() {
				_ = nnode.Json()
				_ = nnode.Yaml()
				other := ReadJ(`{"a":[1,2]}`)
				d := nnode.Diff(other)
				_ = d.Render()
				_, _ = d.RenderPatch()
				_ = nnode.Equals(other, jd.SET)
				_ = nnode.Diff(other, jd.SET).Render()
				_ = nnode.Diff(other, jd.MULTISET).Render()
				m, e := nnode.Diff(other, jd.MERGE).RenderMerge()
				_, _ = m, e
				d2 := other.Diff(nnode)
				_, _ = ReadJ(`{"a":[1,2]}`).Patch(d2)
			}); pan != "" {
				c.Violation("a successfully read document crashed rendering / diffing / patching", map[string]any{"panic": pan})
			}
		},
	})
	p.Strata = append(p.Strata, mon.Stratum{
		Name: "cli",
		CLI:  true,
		N:    qt(900, 20000),
		Run: func(c *mon.Ctx, i int) {
			if i%23 == 22 {
				// bytes that are not UTF-8 text (UTF-16 with a byte order mark, odd lengths, NUL) as every kind of input
				blob := gen.Pick(c.R, []string{"\xff\xfe{\x00}", "\xff\xfe{\x00}\x00", "\xfe\xff\x00{\x00}", "\x00", "\xff\xfe", "\xff", "{\"a\":\x00}", "\xef\xbb\xbf\xef\xbb\xbf{}"})
				c.Input("blob", fmt.Sprintf("%q", blob))
				c.Feature("non_utf8_inputs")
				c.Nontrivial("blob" + blob)
				c13CLI(c, []string{"a.json", "blob.bin"}, "", map[string]string{"a.json": `{"a":1}`, "blob.bin": blob}, false)
				c13CLI(c, []string{"-p", "blob.bin", "a.json"}, "", map[string]string{"a.json": `{"a":1}`, "blob.bin": blob}, false)
				c13CLI(c, []string{"-t", "yaml2json"}, blob, nil, false)
				return
			}
			if i%9 == 8 {
				// a well-formed diff (native, JSON Patch, merge patch) against a damaged or empty document
				a, b := gen.Pair(c.R, gen.PTiny)
				aText, bText := ref.ToJSON(a), ref.ToJSON(b)
				var text string
				var flags []string
				switch (i / 9) % 3 {
				case 0:
					text = ReadJ(aText).Diff(ReadJ(bText)).Render()
				case 1:
					t, err := ReadJ(aText).Diff(ReadJ(bText)).RenderPatch()
					if err != nil {
						t = "[]"
					}
					text, flags = t, []string{"-f", "patch"}
				default:
					t, err := ReadJ(aText).Diff(ReadJ(bText), jd.MERGE).RenderMerge()
					if err != nil {
						t = "{}"
					}
					text, flags = t, []string{"-f", "merge"}
				}
				bad := gen.Pick(c.R, []string{"{", "[1,", `{"a":}`, "nul", `{"a":1}}`, "\x00", `"unterminated`, mutateText(c.R, aText) + "]"})
				yaml := (i/27)%2 == 1
				if yaml {
					flags = append(flags, "-yaml")
					bad = gen.Pick(c.R, []string{"a: [1, 2", "\ta: 1", "a: b: c", "- 1\n  - 2\n - 3", "*unknown", "a: &x\n  - *y", "%YAML 9.9\n---\n{"})
				}
				var rerr error
				if yaml {
					_, rerr = jd.ReadYamlString(bad)
				} else {
					_, rerr = jd.ReadJsonString(bad)
				}
				if rerr == nil {
					c.Skip("the damaged document is still readable")
					return
				}
				c.Input("diff", text)
				c.Input("document", bad)
				c.Feature("valid_diff_on_malformed_document")
				c.Nontrivial(text + bad)
				c13CLI(c, append(append([]string{"-p"}, flags...), "p.txt", "doc.txt"), "", map[string]string{"p.txt": text, "doc.txt": bad}, true)
				c13CLI(c, append(append([]string{"-p"}, flags...), "p.txt"), bad, map[string]string{"p.txt": text}, true)
				return
			}
			switch i % 4 {
			case 0: // hostile diff through -p
				text := hostileDiffText(c.R, 1+i%3)
				doc := c13Panel[c.R.Intn(len(c13Panel))]
				c.Input("diff", text)
				c.Input("document", doc)
				d, err := jd.ReadDiffString(text)
				expectErr := err != nil
				if err == nil {
					var perr error
					if pan := mon.Safe(func() { _, perr = ReadJ(doc).Patch(d) }); pan == "" && perr != nil {
						expectErr = true
					}
				}
				c.Nontrivial(text + doc)
				c13CLI(c, []string{"-p", "p.diff", "doc.json"}, "", map[string]string{"p.diff": text, "doc.json": doc}, expectErr)
			case 1: // damaged patch / merge through -p -f
				a, b := gen.Pair(c.R, gen.PDefault)
				aText, bText := ref.ToJSON(a), ref.ToJSON(b)
				var text, f string
				var rd func(string) (jd.Diff, error)
				if i%8 == 1 {
					t, err := ReadJ(aText).Diff(ReadJ(bText)).RenderPatch()
					if err != nil {
						t = "[]"
					}
					text, f, rd = mutateText(c.R, strings.ReplaceAll(t, "},{", "},\n{")), "patch", jd.ReadPatchString
				} else {
					t, _ := ReadJ(aText).Diff(ReadJ(bText), jd.MERGE).RenderMerge()
					text, f, rd = mutateText(c.R, strings.ReplaceAll(t, ",", ",\n")), "merge", jd.ReadMergeString
				}
				c.Input("text", text)
				_, err := rd(text)
				c.Nontrivial(text)
				c13CLI(c, []string{"-p", "-f", f, "p.txt", "doc.json"}, "", map[string]string{"p.txt": text, "doc.json": aText}, err != nil)
			case 2: // hostile YAML / damaged JSON through diff and translate modes
				if i%8 == 2 {
					// byte-identical unparseable inputs are still an error, not "no difference"
					bad := mutateText(c.R, ref.ToJSON(gen.Doc(c.R, gen.PDefault))) + "}"
					if _, err := jd.ReadJsonString(bad); err != nil {
						c.Input("json", bad)
						c.Feature("identical_malformed_inputs")
						c13CLI(c, []string{"a.json", "b.json"}, "", map[string]string{"a.json": bad, "b.json": bad}, true)
						c13CLI(c, []string{"-f", "merge", "a.json"}, bad, map[string]string{"a.json": bad}, true)
					}
				}
				var text string
				if i < 4*len(yamlHostile) {
					text = yamlHostile[i/4]
				} else {
					text = mutateText(c.R, ReadJ(ref.ToJSON(gen.Doc(c.R, gen.PDefault))).Yaml())
				}
				c.Input("yaml", text)
				_, err := jd.ReadYamlString(text)
				c.Nontrivial(text)
				c13CLI(c, []string{"-yaml", "a.yaml", "b.yaml"}, "", map[string]string{"a.yaml": text, "b.yaml": "a: 1\n"}, err != nil)
				c13CLI(c, []string{"-t", "yaml2json", "a.yaml"}, "", map[string]string{"a.yaml": text}, err != nil)
			default: // damaged diff through translate
				a, b := gen.Pair(c.R, gen.PDefault)
				text := mutateText(c.R, ReadJ(ref.ToJSON(a)).Diff(ReadJ(ref.ToJSON(b))).Render())
				c.Input("diff", text)
				_, err := jd.ReadDiffString(text)
				c.Nontrivial(text)
				c13CLI(c, []string{"-t", "jd2patch", "p.diff"}, "", map[string]string{"p.diff": text}, false)
				c13CLI(c, []string{"-t", "jd2merge", "p.diff"}, "", map[string]string{"p.diff": text}, err != nil)
			}
		},
	})
	// coverage-guided leg (thorough only): Go native fuzzing of harness/fuzz with a fixed execution count
	fuzzTargets := []string{"FuzzDiffText", "FuzzPatchText", "FuzzMergeText", "FuzzYamlDoc", "FuzzJsonPair"}
	p.Strata = append(p.Strata, mon.Stratum{
		Name: "coverage-guided-fuzz",
		CLI:  true,
		N: func(t mon.Tier) int {
			if t == mon.Thorough {
				return len(fuzzTargets)
			}
			return 0
		},
		Run: func(c *mon.Ctx, i int) {
			target := fuzzTargets[i]
			execs := "2000000"
			if v := os.Getenv("VH_FUZZ_EXECS"); v != "" {
				execs = v
			}
			c.Input("fuzz_target", target)
			c.Input("executions", execs)
			cmd := exec.Command("go", "test", "-tags", "verif", "-run=^$", "-fuzz=^"+target+"$", "-fuzztime="+execs+"x", "-parallel=3", "./fuzz")
			cmd.Dir = "/verif/harness"
			if v := os.Getenv("VH_VERIF_DIR"); v != "" {
				cmd.Dir = v + "/harness"
			}
			cmd.Env = append(os.Environ(), "GOMAXPROCS=4")
			out, err := cmd.CombinedOutput()
			text := string(out)
			c.Feature("fuzz_targets_run")
			if m := regexp.MustCompile(`execs: (\d+)`).FindAllStringSubmatch(text, -1); len(m) > 0 {
				var nx int
				fmt.Sscan(m[len(m)-1][1], &nx)
				c.FeatureN("fuzz_executions", nx)
			}
			c.Nontrivial("fuzz:" + target)
			if err == nil {
				return
			}
			extra := map[string]any{"go_test_output": tail(text, 3000)}
			if m := regexp.MustCompile(`testdata/fuzz/(\S+)`).FindStringSubmatch(text); m != nil {
				src := "/verif/harness/fuzz/testdata/fuzz/" + m[1]
				if b, rerr := os.ReadFile(src); rerr == nil {
					extra["failing_input"] = string(b)
					dst := "/verif/evidence/replays/C13-fuzz-" + strings.ReplaceAll(m[1], "/", "-") + ".txt"
					os.MkdirAll("/verif/evidence/replays", 0o755)
					os.WriteFile(dst, b, 0o644)
					extra["failing_input_file"] = dst
				}
				os.RemoveAll("/verif/harness/fuzz/testdata")
			}
			if strings.Contains(text, "panic") || strings.Contains(text, "FAIL") {
				c.Violation("coverage-guided fuzzing of "+target+" found an input that crashes jd", extra)
				return
			}
			c.Violation("go test -fuzz failed for "+target+" (build or tool failure)", extra)
		},
	})
	mon.Register(p)
}

func tail(s string, n int) string {
	if len(s) > n {
		return s[len(s)-n:]
	}
	return s
}
