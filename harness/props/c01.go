package props

import (
	"fmt"
	"sort"
	"strings"

	jd "github.com/josephburnett/jd/v2"

	"verifharness/gen"
	"verifharness/mon"
	"verifharness/ref"
)

// FuzzCorpus is the seed corpus of the repository's FuzzJd (31 documents).
var FuzzCorpus = []string{``, ` `, `null`, `0`, `1`, `""`, `"foo"`, `"bar"`, `"null"`, `[]`, `[null]`, `[null,null,null]`, `[1]`,
	`[1,2,3]`, `[{},[],3]`, `[1,{},[]]`, `{}`, `{"foo":"bar"}`, `{"foo":null}`, `{"foo":1}`, `{"foo":[]}`, `{"foo":[null]}`,
	`{"foo":[1]}`, `{"foo":[1,2,3]}`, `{"foo":[1,null,3]}`, `{"foo":{}}`, `{"foo":{"bar":null}}`, `{"foo":{"bar":1}}`,
	`{"foo":{"bar":[]}}`, `{"foo":{"bar":[1,2,3]}}`, `{"foo":{"bar":{}}}`}

var alpha3 = []any{1.0, 2.0, 3.0}
var alpha2 = []any{1.0, 2.0}

var arraysK3N4 = gen.Arrays(alpha3, 4)
var arraysK3N5 = gen.Arrays(alpha3, 5)
var arraysK2N7 = gen.Arrays(alpha2, 7)

func exhArrays(t mon.Tier) [][]any {
	if t == mon.Thorough {
		return arraysK3N5
	}
	return arraysK3N4
}

var c01Profiles = []gen.Profile{gen.PDefault, gen.PTiny, gen.PDeep, gen.PNulls, gen.PObjects, gen.PNumbers, gen.PSyntaxy}

// c01Judge runs the diff-then-patch round trip on the in-memory diff and
// judges it. It is shared by the strata of C01.
func c01Judge(c *mon.Ctx, aText, bText string, o OptSet) {
	if reason, extra := c01Run(c, aText, bText, o); reason != "" {
		c.Violation(reason, extra)
	}
}

func c01Run(c *mon.Ctx, aText, bText string, o OptSet) (string, map[string]any) {
	c.Input("a", aText)
	c.Input("b", bText)
	c.Input("options", o.Name)
	mkA := operand(c, aText, "a", 0.08)
	A, B := mkA(), ReadJ(bText)
	b := Plain(B)
	if c.R.Chance(0.1) && len(o.Keys) == 0 {
		if P, ok := viaPatch(c.R, b); ok {
			B = P // the same document as the in-memory result of a Patch
			c.Feature("b_is_patch_result")
		}
	}
	d := A.Diff(B, o.O()...)
	hs := Hunks(d)
	diffFeatures(c, hs)
	c.Feature("opt:" + o.Name)
	if c.Verbose {
		c.Logf("diff (from public fields):\n%s", ref.HunksString(hs))
	}
	if len(hs) > 0 {
		c.Nontrivial(joinKey(aText, bText, o.Name))
	}
	A2 := ReadJ(aText) // Patch edits its receiver: always a fresh parse
	P, err := A2.Patch(d)
	if err != nil {
		return "Patch(a, a.Diff(b)) returned an error: " + err.Error(), map[string]any{"diff": ref.HunksString(hs)}
	}
	if P == nil {
		return "Patch returned nil node and nil error", map[string]any{"diff": ref.HunksString(hs)}
	}
	if !P.Equals(ReadJ(bText), o.O()...) {
		return "patched document does not Equal b under the same options", map[string]any{"diff": ref.HunksString(hs), "patched": P.Json()}
	}
	if sharedContainer(B) == "" {
		// b holds every container once: the patched document (a fresh parse of a, patched) may share nodes
		// with b, but it must not hold one container at two places either
		if m := sharedContainer(P); m != "" {
			return "the patched document holds one container at two places (" + m + "): a later in-place patch of one changes the other", map[string]any{"diff": ref.HunksString(hs), "patched": P.Json()}
		}
	}
	p := Plain(P)
	if !ref.Eq(p, b, o.Reading) {
		return "patched document differs from b under the " + o.Reading.String() + " reading (independent canonical form)",
			map[string]any{"diff": ref.HunksString(hs), "patched": ref.ToJSON(p)}
	}
	// The property speaks of applying a.Diff(b) to a: the very node the diff
	// was computed from, whose arrays the hunks may still refer to.
	if len(hs) > 0 {
		c.Feature("applied_to_the_operand_itself")
		P2, err := A.Patch(d)
		if err != nil {
			return "a.Patch(a.Diff(b)) on the very operand the diff was computed from returned an error: " + err.Error(), map[string]any{"diff": ref.HunksString(hs)}
		}
		if P2 == nil {
			return "Patch returned nil node and nil error", map[string]any{"diff": ref.HunksString(hs)}
		}
		if p2 := Plain(P2); !ref.Eq(p2, b, o.Reading) {
			return "a.Patch(a.Diff(b)) on the very operand the diff was computed from differs from b under the " + o.Reading.String() + " reading",
				map[string]any{"diff": ref.HunksString(hs), "patched": ref.ToJSON(p2)}
		}
	}
	c.Sample(map[string]any{"diff": ref.HunksString(hs), "patched": ref.ToJSON(p)})
	return "", nil
}

// hasPermutedTuples is the classifier of known finding F21: somewhere in a
// or b there are two objects carrying all keys whose key tuples differ but
// are permutations of each other (equal as multisets of values).
func hasPermutedTuples(keys []string, docs ...any) bool {
	byBag := map[string]map[string]bool{}
	var walk func(v any)
	walk = func(v any) {
		switch t := v.(type) {
		case []any:
			for _, e := range t {
				walk(e)
			}
		case map[string]any:
			ordered := make([]string, 0, len(keys))
			for _, k := range keys {
				if x, ok := t[k]; ok {
					ordered = append(ordered, ref.Canon(x, ref.List))
				}
			}
			if len(ordered) == len(keys) {
				bag := append([]string{}, ordered...)
				sort.Strings(bag)
				bk, ok := strings.Join(bag, "|"), strings.Join(ordered, "|")
				if byBag[bk] == nil {
					byBag[bk] = map[string]bool{}
				}
				byBag[bk][ok] = true
			}
			for _, e := range t {
				walk(e)
			}
		}
	}
	for _, d := range docs {
		walk(d)
	}
	for _, m := range byBag {
		if len(m) > 1 {
			return true
		}
	}
	return false
}

func init() {
	p := &mon.Property{
		ID: "C01",
		Rule: "cases are (a, b, option set): seeded random document pairs (b = structured mutation of a three times in four) per option set, " +
			"exhaustive array pairs over {1,2,3} wrapped at four depths, the FuzzJd corpus, void on either side, YAML-read inputs, pairs differing in several sibling members below a chain of 1-9 object keys, arrays whose elements / member values / keys are 1-140 KB strings differing in one middle byte, multiplicities around 256; " +
			"every non-empty diff is applied twice, to a fresh parse of a and to the very operand it was computed from (whose arrays its hunks may still refer to); non-trivial = the diff has at least one hunk; distinct = distinct (a, b, options) texts",
		Floors: map[string]int{
			"diff_nonempty": 5000, "hunks>=2": 1000, "index_shift(>=2 hunks in one array)": 300, "hunk_nested_arrays": 300,
			"hunk_set_multi": 100, "hunk_keyed_member": 100, "hunk_merge": 100, "hunk_multiset": 100, "void_involved": 20, "deep_chain_pairs": 5000, "yaml_read_pairs": 3000, "applied_to_the_operand_itself": 5000, "bulky_element_pairs": 1000, "copies_made_by_a_multiset_patch": 1000, "twin_member_pairs": 5000,
		},
		Assumptions: []string{
			"jd values are built with jd's own ReadJsonString / ReadYamlString from generated text",
			"the verdict needs jd's own Equals AND an independent canonical-form comparison (ref.Canon) to agree that the patched document is b",
			"SetKeys inputs satisfy the stated precondition (every array-member object carries all keys, key tuples unique per array)",
			"MERGE inputs are null-free",
		},
	}
	for _, o := range append(append([]OptSet{}, AllDiffOpts...), OptKeysMerge) {
		o := o
		p.Strata = append(p.Strata, mon.Stratum{
			Name: "random/" + o.Name,
			N:    qt(12000, 1200000),
			Run: func(c *mon.Ctx, i int) {
				prof := c01Profiles[i%len(c01Profiles)]
				if o.Merge && prof.Scalars[len(prof.Scalars)-1] == nil {
					prof = gen.PDefault
				}
				a, b := PairFor(c.R, o, prof)
				c01Judge(c, ref.ToJSON(a), ref.ToJSON(b), o)
			},
		})
	}
	// exhaustive array pairs, list mode at four wrappings, SET and MULTISET at the root
	type exh struct {
		name string
		o    OptSet
		wrap int
	}
	for _, e := range []exh{{"root", OptNone, 0}, {"under-key", OptNone, 1}, {"in-array", OptNone, 2}, {"array-in-object-in-array", OptNone, 3},
		{"root-SET", OptSetO, 0}, {"root-MULTISET", OptMset, 0}, {"under-key-MULTISET", OptMset, 1}} {
		e := e
		p.Strata = append(p.Strata, mon.Stratum{
			Name:       "exh-arrays/" + e.name,
			N:          func(t mon.Tier) int { k := len(exhArrays(t)); return k * k },
			Exhaustive: always,
			Run: func(c *mon.Ctx, i int) {
				arrs := exhArrays(c.Tier)
				a, b := arrs[i/len(arrs)], arrs[i%len(arrs)]
				c.Feature("exhaustive_pair")
				c01Judge(c, ref.ToJSON(gen.Wrap(a, e.wrap)), ref.ToJSON(gen.Wrap(b, e.wrap)), e.o)
			},
		})
	}
	for _, o := range []OptSet{OptNone, OptSetO, OptMset, OptMerge} {
		o := o
		p.Strata = append(p.Strata, mon.Stratum{
			Name: "bulky-elements/" + o.Name,
			N:    qt(400, 8000),
			Run: func(c *mon.Ctx, i int) {
				// strings of 1-140 KB that differ in one middle byte, as array elements, as member
				// values and as keys of objects inside arrays; multiplicities around 256
				r := c.R
				n := []int{1100, 5000, 70000, 140000}[i%4]
				s1, s2 := midDiffPair(n)
				alpha := []any{s1, s2, "x", 1.0, []any{s1}, []any{s2}, map[string]any{"blob": s1}, map[string]any{"blob": s2}, map[string]any{s1: 1.0}, map[string]any{s2: 1.0}}
				mk := func() []any {
					var l []any
					for k := r.Range(1, 5); k > 0; k-- {
						l = append(l, gen.Pick(r, alpha))
					}
					return l
				}
				a := mk()
				b := append([]any{}, a...)
				for e := r.Range(1, 2); e > 0; e-- {
					j := r.Intn(len(b))
					b[j] = gen.Pick(r, alpha)
				}
				if r.Chance(0.3) {
					b = append(b, gen.Pick(r, alpha))
				}
				if i%5 == 0 {
					hi := []int{255, 256, 257}[(i/5)%3]
					for k := 0; k < hi; k++ {
						a = append(a, "x")
					}
					for k := r.Range(0, hi+2); k > 0; k-- {
						b = append(b, "x")
					}
				}
				c.Feature("bulky_element_pairs")
				w := i % 3
				c01Judge(c, ref.ToJSON(gen.Wrap(a, w)), ref.ToJSON(gen.Wrap(b, w)), o)
			},
		})
	}
	for _, o := range []OptSet{OptSetO, OptMset, OptNone, OptMsMerge} {
		o := o
		p.Strata = append(p.Strata, mon.Stratum{
			Name: "twins/" + o.Name,
			N:    qt(2500, 150000),
			Run: func(c *mon.Ctx, i int) {
				a, b := twinsPair(c.R)
				c.Feature("twin_member_pairs")
				w := i % 3
				c01Judge(c, ref.ToJSON(gen.Wrap(a, w)), ref.ToJSON(gen.Wrap(b, w)), o)
			},
		})
	}
	p.Strata = append(p.Strata, mon.Stratum{
		Name:       "tricky-pairs",
		N:          n(len(trickyPairs) * 2 * 4 * len(AllDiffOpts)),
		Exhaustive: always,
		Run: func(c *mon.Ctx, i int) {
			tp := trickyPairs[i%len(trickyPairs)]
			if (i/len(trickyPairs))%2 == 1 {
				tp[0], tp[1] = tp[1], tp[0]
			}
			how := (i / (2 * len(trickyPairs))) % 4
			o := AllDiffOpts[(i/(8*len(trickyPairs)))%len(AllDiffOpts)]
			a, _ := wrapText(tp[0], how)
			b, _ := wrapText(tp[1], how)
			if len(o.Keys) > 0 {
				c.Skip("keyed option sets need keyed members")
				return
			}
			c.Feature("tricky_pairs")
			c01Judge(c, a, b, o)
		},
	})
	p.Strata = append(p.Strata, mon.Stratum{
		Name: "copies-made-by-a-multiset-patch",
		N:    qt(1500, 100000),
		Run: func(c *mon.Ctx, i int) {
			// a is what a MULTISET (or SET) Patch returned after raising the multiplicity of a container member;
			// b changes ONE of the copies inside. If the copies shared storage, patching one would change all (F34).
			r := c.R
			member := gen.Pick(r, []any{map[string]any{"k": 1.0, "l": []any{1.0}}, []any{1.0, map[string]any{"k": 1.0}}, map[string]any{"k": map[string]any{"n": 1.0}}})
			x := []any{ref.Clone(member), "z"}
			n := r.Range(2, 4)
			var want []any
			for k := 0; k < n; k++ {
				want = append(want, ref.Clone(member))
			}
			want = append(want, "z")
			w := i % 2
			xText, wText := ref.ToJSON(gen.Wrap(x, w)), ref.ToJSON(gen.Wrap(want, w))
			mkA := func() jd.JsonNode {
				P, err := ReadJ(xText).Patch(ReadJ(xText).Diff(ReadJ(wText), jd.MULTISET))
				if err != nil {
					return nil
				}
				return P
			}
			A := mkA()
			if A == nil {
				c.Skip("the building patch failed")
				return
			}
			aText := A.Json()
			a := ref.MustJSON(aText)
			b := ref.Clone(a)
			// change the k-th copy only
			which, seen := r.Intn(n), 0
			var edit func(v any) any
			edit = func(v any) any {
				switch t := v.(type) {
				case []any:
					for j := range t {
						if ref.Eq(t[j], member, ref.List) {
							if seen == which {
								switch m := t[j].(type) {
								case map[string]any:
									m["k"] = 2.0
								case []any:
									t[j] = append(m, "new")
								}
							}
							seen++
						} else {
							t[j] = edit(t[j])
						}
					}
				case map[string]any:
					for _, k := range ref.SortedKeys(t) {
						t[k] = edit(t[k])
					}
				}
				return v
			}
			b = edit(b)
			bText := ref.ToJSON(b)
			c.Input("a", aText)
			c.Input("b", bText)
			c.Input("a_built_by", "MULTISET Patch that raised a multiplicity")
			c.Feature("copies_made_by_a_multiset_patch")
			c.Nontrivial(joinKey("copies", aText, bText))
			d := A.Diff(ReadJ(bText))
			P, err := A.Patch(d)
			if err != nil || P == nil {
				c.Violation("a.Patch(a.Diff(b)) failed on a document returned by a MULTISET Patch: "+fmt.Sprint(err), map[string]any{"diff": ref.HunksString(Hunks(d))})
				return
			}
			if got := Plain(P); !ref.Eq(got, b, ref.List) {
				c.Violation("a.Patch(a.Diff(b)) on a document returned by a MULTISET Patch is not b: the copies of a member share storage", map[string]any{"diff": ref.HunksString(Hunks(d)), "patched": ref.ToJSON(got)})
			}
		},
	})
	for _, o := range []OptSet{OptNone, OptSetO, OptMset} {
		o := o
		p.Strata = append(p.Strata, mon.Stratum{
			Name:       "fuzz-corpus/" + o.Name,
			N:          n(len(FuzzCorpus) * len(FuzzCorpus)),
			Exhaustive: always,
			Run: func(c *mon.Ctx, i int) {
				a, b := FuzzCorpus[i/len(FuzzCorpus)], FuzzCorpus[i%len(FuzzCorpus)]
				if a == "" || a == " " || b == "" || b == " " {
					c.Feature("void_involved")
				}
				c01Judge(c, a, b, o)
			},
		})
	}
	p.Strata = append(p.Strata, mon.Stratum{
		Name: "void-sides",
		N:    qt(2000, 160000),
		Run: func(c *mon.Ctx, i int) {
			o := AllDiffOpts[i%len(AllDiffOpts)]
			prof := gen.PDefault
			if o.Merge {
				prof.Scalars = withoutNull(prof.Scalars)
			}
			var doc any
			if len(o.Keys) > 0 {
				doc = gen.KeyedDoc(c.R, prof, o.Keys)
			} else {
				doc = gen.Doc(c.R, prof)
			}
			c.Feature("void_involved")
			switch (i / len(AllDiffOpts)) % 3 {
			case 0:
				c01Judge(c, "", ref.ToJSON(doc), o)
			case 1:
				c01Judge(c, ref.ToJSON(doc), " ", o)
			default:
				c01Judge(c, "", "  ", o)
			}
		},
	})
	for _, o := range []OptSet{OptNone, OptSetO, OptMset, OptMerge, OptSetMerge} {
		o := o
		p.Strata = append(p.Strata, mon.Stratum{
			Name: "deep-chains/" + o.Name,
			N:    qt(4000, 400000),
			Run: func(c *mon.Ctx, i int) {
				a, b := gen.DeepChainPair(c.R, gen.PDefault, o.Merge)
				c.Feature("deep_chain_pairs")
				c01Judge(c, ref.ToJSON(a), ref.ToJSON(b), o)
			},
		})
	}
	p.Strata = append(p.Strata, mon.Stratum{
		Name: "yaml-read",
		N:    qt(6000, 600000),
		Run: func(c *mon.Ctx, i int) {
			// the same round trip on documents read through jd's YAML reader
			o := AllDiffOpts[i%len(AllDiffOpts)]
			a, b := PairFor(c.R, o, gen.PDefault)
			if ref.IsVoid(a) || ref.IsVoid(b) {
				return
			}
			ay, by := ref.YamlEmit(a, ref.YBlockDouble), ref.YamlEmit(b, ref.YFlowDouble)
			c.Input("a_yaml", ay)
			c.Input("b_yaml", by)
			c.Input("options", o.Name)
			A, err1 := jd.ReadYamlString(ay)
			B, err2 := jd.ReadYamlString(by)
			if err1 != nil || err2 != nil {
				c.Violation("ReadYamlString rejected generated YAML", map[string]any{"err_a": fmt.Sprint(err1), "err_b": fmt.Sprint(err2)})
				return
			}
			c.Feature("yaml_read_pairs")
			d := A.Diff(B, o.O()...)
			if len(d) > 0 {
				c.Nontrivial(joinKey("yaml", ay, by, o.Name))
			}
			A2, _ := jd.ReadYamlString(ay)
			P, err := A2.Patch(d)
			if err != nil || P == nil {
				c.Violation("Patch(a, a.Diff(b)) failed on YAML-read documents: "+fmt.Sprint(err), map[string]any{"diff": ref.HunksString(Hunks(d))})
				return
			}
			B2, _ := jd.ReadYamlString(by)
			if !P.Equals(B2, o.O()...) || !ref.Eq(Plain(P), b, o.Reading) {
				c.Violation("patched YAML-read document is not b", map[string]any{"diff": ref.HunksString(Hunks(d)), "patched": P.Json()})
			}
		},
	})
	p.Strata = append(p.Strata, mon.Stratum{
		Name: "keyed-permuted-tuples/SetKeys(id,k2)",
		N:    qt(6000, 400000),
		Run: func(c *mon.Ctx, i int) {
			o := OptKeys2
			a := gen.KeyifyPermuted(c.R, gen.Doc(c.R, gen.PDefault), o.Keys)
			b := gen.KeyifyPermuted(c.R, gen.Mutate(c.R, gen.PDefault, a), o.Keys)
			reason, extra := c01Run(c, ref.ToJSON(a), ref.ToJSON(b), o)
			if reason == "" {
				return
			}
			if hasPermutedTuples(o.Keys, a, b) {
				c.Known("F21", reason, extra)
				return
			}
			c.Violation(reason, extra)
		},
	})
	mon.Register(p)
}
