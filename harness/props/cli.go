package props

import (
	"bytes"
	"fmt"
	"os"
	"os/exec"
	"path/filepath"
	"strings"
	"time"

	"verifharness/mon"
)

// CLIResult is what a monitor observes of one process run.
type CLIResult struct {
	Status  int
	Stdout  string
	Stderr  string
	Timeout bool
}

// Binaries under test: the v2 binary, the top-level binary and the
// top-level binary with -v2=false.
type Binary struct {
	Name string
	Key  string // key into Ctx.Bins
	Pre  []string
	V1   bool
}

var (
	BinV2    = Binary{Name: "v2/jd", Key: "jd2"}
	BinTop   = Binary{Name: "jd", Key: "jd1"}
	BinTopV1 = Binary{Name: "jd -v2=false", Key: "jd1", Pre: []string{"-v2=false"}, V1: true}
	Binaries = []Binary{BinV2, BinTop, BinTopV1}
)

// RunCLI runs a jd binary in the case's scratch directory. files are
// written first; stdin may be empty. A generous watchdog kills a hung
// process (reported as Timeout, never as a verdict by itself).
func RunCLI(c *mon.Ctx, b Binary, args []string, stdin string, files map[string]string) CLIResult {
	return runCLI(c, b, args, stdin, files, false)
}

// RunCLIDevNull runs the binary with its standard output connected to
// /dev/null (a character device, like a terminal) instead of a pipe.
func RunCLIDevNull(c *mon.Ctx, b Binary, args []string, stdin string, files map[string]string) CLIResult {
	return runCLI(c, b, args, stdin, files, true)
}

func runCLI(c *mon.Ctx, b Binary, args []string, stdin string, files map[string]string, devNull bool) CLIResult {
	dir := c.WorkDir
	for name, content := range files {
		if err := os.WriteFile(filepath.Join(dir, name), []byte(content), 0o644); err != nil {
			panic(err)
		}
	}
	bin := c.Bins[b.Key]
	if bin == "" {
		panic("harness: CLI binary " + b.Key + " not built (VH_JD1/VH_JD2 unset)")
	}
	cmd := exec.Command(bin, append(append([]string{}, b.Pre...), args...)...)
	cmd.Dir = dir
	cmd.Stdin = strings.NewReader(stdin)
	var so, se bytes.Buffer
	cmd.Stdout, cmd.Stderr = &so, &se
	if devNull {
		if f, err := os.OpenFile(os.DevNull, os.O_WRONLY, 0); err == nil {
			defer f.Close()
			cmd.Stdout = f
		}
	}
	if err := cmd.Start(); err != nil {
		panic(err)
	}
	done := make(chan error, 1)
	go func() { done <- cmd.Wait() }()
	var res CLIResult
	select {
	case <-done:
	case <-time.After(240 * time.Second):
		cmd.Process.Kill()
		<-done
		res.Timeout = true
		// a wall-clock deadline is never a verdict: the case is abandoned as inconclusive
		c.Inconclusive("CLI run hit the 240 s watchdog: " + b.Name + " " + strings.Join(args, " "))
		panic(mon.Unjudged("cli watchdog"))
	}
	res.Status = cmd.ProcessState.ExitCode()
	res.Stdout, res.Stderr = so.String(), se.String()
	if c.Verbose {
		fmt.Printf("  $ %s %s   -> status %d\n    stdout: %q\n    stderr: %q\n", b.Name, strings.Join(args, " "), res.Status, trunc(res.Stdout), trunc(res.Stderr))
	}
	return res
}

func trunc(s string) string {
	if len(s) > 1500 {
		return s[:1500] + "..."
	}
	return s
}

// HasCrashMarkers reports Go crash output (panic, fatal error, goroutine dump).
func HasCrashMarkers(stderr string) bool {
	return strings.Contains(stderr, "panic:") || strings.Contains(stderr, "fatal error:") || strings.Contains(stderr, "goroutine ") && strings.Contains(stderr, "[running]")
}

// cliFlags translates an option set into command-line flags.
func cliFlags(o OptSet) []string {
	var f []string
	switch o.Name {
	case "SET", "SET+MERGE":
		f = append(f, "-set")
	case "MULTISET", "MULTISET+MERGE":
		f = append(f, "-mset")
	case "SET+SetKeys(id)":
		f = append(f, "-set")
	}
	if len(o.Keys) > 0 {
		f = append(f, "-setkeys", strings.Join(o.Keys, ","))
	}
	if o.Merge {
		f = append(f, "-f", "merge")
	}
	if o.HasEps {
		f = append(f, fmt.Sprintf("-precision=%g", o.Eps))
	}
	return f
}
