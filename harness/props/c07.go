package props

import (
	"fmt"
	"math"

	jd "github.com/josephburnett/jd/v2"

	"verifharness/gen"
	"verifharness/mon"
	"verifharness/ref"
)

func countCanon(vs []any, r ref.Reading) map[string]int {
	m := map[string]int{}
	for _, v := range vs {
		m[ref.Canon(v, r)]++
	}
	return m
}

func hasIndex(h ref.Hunk) bool {
	for _, e := range h.Path {
		if e.Kind == ref.KIndex {
			return true
		}
	}
	return false
}

// c07Hunk checks one hunk of a.Diff(b) against a and b.
func c07Hunk(c *mon.Ctx, a, b any, h ref.Hunk, k int, o OptSet) string {
	last := ref.PathEl{Kind: ref.KKey}
	if len(h.Path) > 0 {
		last = h.Path[len(h.Path)-1]
	}
	if hasIndex(h) {
		// index paths are relative to intermediate states: judged stepwise by the caller. What can be
		// judged here: a removed and an added container of the same kind at the same offset that share
		// an equal member mention that equal sub-document.
		if last.Kind == ref.KIndex {
			for j := 0; j < len(h.Remove) && j < len(h.Add); j++ {
				if sharesEqualPart(h.Remove[j], h.Add[j]) {
					return fmt.Sprintf("list hunk replaces %s by %s wholesale although they share an equal member (equal sub-documents must not be mentioned)", ref.ToJSON(h.Remove[j]), ref.ToJSON(h.Add[j]))
				}
			}
		}
		return ""
	}
	va, _, oka := ref.Navigate(a, h.Path)
	vb, _, okb := ref.Navigate(b, h.Path)
	switch {
	case last.Kind == ref.KSet && len(h.Path) > 0:
		c.Feature("checked_set_hunk")
		if !oka || !okb {
			return "set hunk path does not resolve to an array in both a and b"
		}
		ca, cb := countCanon(va.([]any), ref.Set), countCanon(vb.([]any), ref.Set)
		if len(h.Remove)+len(h.Add) == 0 {
			return "set hunk removes and adds nothing"
		}
		seen := map[string]bool{}
		for _, r := range h.Remove {
			cr := ref.Canon(r, ref.Set)
			if ca[cr] == 0 || cb[cr] != 0 {
				return fmt.Sprintf("set hunk removes %s which is not a member of a only", ref.ToJSON(r))
			}
			if seen[cr] {
				return fmt.Sprintf("set hunk lists %s twice", ref.ToJSON(r))
			}
			seen[cr] = true
		}
		for _, x := range h.Add {
			cx := ref.Canon(x, ref.Set)
			if cb[cx] == 0 || ca[cx] != 0 {
				if len(o.Keys) > 0 && isContainerKind(x) == "object" {
					continue // keyed members: identity is the key tuple, not the whole value
				}
				return fmt.Sprintf("set hunk adds %s which is not a member of b only", ref.ToJSON(x))
			}
			if seen["+"+cx] {
				return fmt.Sprintf("set hunk lists %s twice", ref.ToJSON(x))
			}
			seen["+"+cx] = true
		}
	case last.Kind == ref.KMultiset && len(h.Path) > 0:
		c.Feature("checked_multiset_hunk")
		if !oka || !okb {
			return "multiset hunk path does not resolve to an array in both a and b"
		}
		ca, cb := countCanon(va.([]any), ref.Multiset), countCanon(vb.([]any), ref.Multiset)
		cr, cx := countCanon(h.Remove, ref.Multiset), countCanon(h.Add, ref.Multiset)
		for k := range ca {
			if d := ca[k] - cb[k]; d > 0 && cr[k] != d {
				return fmt.Sprintf("multiset hunk removes %d copies of a value whose surplus in a is %d", cr[k], d)
			}
		}
		for k, n := range cr {
			if d := ca[k] - cb[k]; d <= 0 || n != d {
				return "multiset hunk removes a value with no surplus in a"
			}
		}
		for k := range cb {
			if d := cb[k] - ca[k]; d > 0 && cx[k] != d {
				return fmt.Sprintf("multiset hunk adds %d copies of a value whose surplus in b is %d", cx[k], d)
			}
		}
		for k, n := range cx {
			if d := cb[k] - ca[k]; d <= 0 || n != d {
				return "multiset hunk adds a value with no surplus in b"
			}
		}
	default:
		// key / root hunk (strict or merge)
		if !oka {
			return "hunk path does not resolve in a"
		}
		if h.Merge {
			c.Feature("checked_merge_hunk")
			want := any(ref.Void{})
			if okb {
				want = vb
			}
			if len(h.Add) != 1 || !ref.Eq(h.Add[0], want, o.Reading) {
				return fmt.Sprintf("merge hunk writes %s but b holds %s there", ref.ToJSON(single(h.Add)), ref.ToJSON(want))
			}
			if ref.Eq(va, want, o.Reading) {
				return "merge hunk mentions a sub-document that is equal in a and b"
			}
			return ""
		}
		c.Feature("checked_key_hunk")
		if !okb {
			return "hunk path does not resolve in b"
		}
		if len(h.Remove) > 1 || len(h.Add) > 1 {
			return "key hunk with several values"
		}
		if !ref.Eq(single(h.Remove), va, o.Reading) {
			return fmt.Sprintf("hunk removes %s but a holds %s there", ref.ToJSON(single(h.Remove)), ref.ToJSON(va))
		}
		if !ref.Eq(single(h.Add), vb, o.Reading) {
			return fmt.Sprintf("hunk adds %s but b holds %s there", ref.ToJSON(single(h.Add)), ref.ToJSON(vb))
		}
		if ref.Eq(va, vb, o.Reading) {
			return "hunk mentions a sub-document that is equal in a and b (removes what it adds)"
		}
	}
	return ""
}

// sharesEqualPart: two objects with an equal value under the same key, or two arrays with a common
// element (LCS > 0). Scalars and containers of different kinds never do.
func sharesEqualPart(x, y any) bool {
	switch a := x.(type) {
	case map[string]any:
		b, ok := y.(map[string]any)
		if !ok {
			return false
		}
		for k, v := range a {
			if w, has := b[k]; has && ref.Eq(v, w, ref.List) {
				return true
			}
		}
	case []any:
		b, ok := y.([]any)
		return ok && ref.LCSLen(a, b) > 0
	}
	return false
}

func single(vs []any) any {
	if len(vs) == 0 {
		return ref.Void{}
	}
	return vs[0]
}

func c07Judge(c *mon.Ctx, aText, bText string, o OptSet) {
	c.Input("a", aText)
	c.Input("b", bText)
	c.Input("options", o.Name)
	c.Feature("opt:" + o.Name)
	a, b := ref.MustJSON(aText), ref.MustJSON(bText)
	mkA, mkB := operand(c, aText, "a", 0.15), operand(c, bText, "b", 0.1)
	d := mkA().Diff(mkB(), o.O()...)
	hs := Hunks(d)
	diffFeatures(c, hs)
	if len(hs) == 0 {
		return
	}
	c.Nontrivial(joinKey(aText, bText, o.Name))
	extra := map[string]any{"diff": ref.HunksString(hs)}
	// per-hunk reality
	for k, h := range hs {
		c.Feature("hunks_checked")
		if msg := c07Hunk(c, a, b, h, k, o); msg != "" {
			extra["hunk"] = h.String()
			c.Violation(fmt.Sprintf("hunk %d: %s", k, msg), extra)
			return
		}
	}
	// stepwise: every hunk applies to the state left by the earlier ones
	// and changes it (no no-op hunk); the final state is b.
	state := ref.Clone(a)
	for k := range hs {
		next, err := ref.RefPatch(state, hs[k:k+1], ref.Dev{})
		if err != nil {
			extra["hunk"] = hs[k].String()
			c.Violation(fmt.Sprintf("hunk %d does not describe the document it applies to: %v", k, err), extra)
			return
		}
		if ref.Eq(next, state, o.Reading) {
			extra["hunk"] = hs[k].String()
			c.Violation(fmt.Sprintf("hunk %d is a no-op: the document is the same (under the %s reading) before and after it", k, o.Reading), extra)
			return
		}
		state = next
	}
	// leave-one-out: no hunk is redundant (real Patch on the real diff)
	if len(hs) >= 2 {
		c.Feature("leave_one_out_diffs")
	}
	for k := range hs {
		sub := make(jd.Diff, 0, len(d)-1)
		d2 := mkA().Diff(mkB(), o.O()...) // fresh values for every leg
		sub = append(sub, d2[:k]...)
		sub = append(sub, d2[k+1:]...)
		c.Feature("leave_one_out_patches")
		var P jd.JsonNode
		var err error
		if pan := mon.Safe(func() { P, err = ReadJ(aText).Patch(sub) }); pan != "" || err != nil || P == nil {
			c.Feature("leave_one_out_rejected")
			continue
		}
		var got any
		if pan := mon.Safe(func() { got = Plain(P) }); pan != "" {
			c.Feature("leave_one_out_rejected")
			continue // a crash is C13's business, not a redundant hunk
		}
		if ref.Eq(got, b, o.Reading) {
			extra["hunk"] = hs[k].String()
			c.Violation(fmt.Sprintf("hunk %d is redundant: the diff without it still turns a into b", k), extra)
			return
		}
		c.Feature("leave_one_out_differs")
	}
	c.Sample(extra)
}

// c07Precision judges a diff made under Precision(eps): a hunk at a key path
// must not mention a sub-document that is equal within the tolerance in a and
// b, must change the state it applies to by more than the tolerance, and no
// hunk may be left out.
func c07Precision(c *mon.Ctx, aText, bText string, o OptSet) {
	c.Input("a", aText)
	c.Input("b", bText)
	c.Input("options", o.Name)
	c.Feature("opt:" + o.Name)
	a, b := ref.MustJSON(aText), ref.MustJSON(bText)
	d := ReadJ(aText).Diff(ReadJ(bText), o.O()...)
	hs := Hunks(d)
	diffFeatures(c, hs)
	if len(hs) == 0 {
		return
	}
	c.Nontrivial(joinKey(aText, bText, o.Name))
	extra := map[string]any{"diff": ref.HunksString(hs)}
	state := ref.Clone(a)
	for k, h := range hs {
		keysOnly := true
		for _, el := range h.Path {
			if el.Kind != ref.KKey {
				keysOnly = false
			}
		}
		if !keysOnly {
			c.Skip("hunk below an array index")
			return
		}
		c.Feature("precision_hunks_checked")
		av, _, okA := ref.Navigate(a, h.Path)
		bv, _, okB := ref.Navigate(b, h.Path)
		if okA && okB && !ref.IsVoid(av) && !ref.IsVoid(bv) && ref.EqPrec(av, bv, o.Eps) {
			extra["hunk"] = h.String()
			c.Violation(fmt.Sprintf("hunk %d mentions a sub-document that is equal within the tolerance in a and b", k), extra)
			return
		}
		next, err := ref.RefPatch(state, hs[k:k+1], ref.Dev{})
		if err != nil {
			extra["hunk"] = h.String()
			c.Violation(fmt.Sprintf("hunk %d does not describe the document it applies to: %v", k, err), extra)
			return
		}
		if ref.EqPrec(next, state, o.Eps) {
			extra["hunk"] = h.String()
			c.Violation(fmt.Sprintf("hunk %d is a no-op within the tolerance", k), extra)
			return
		}
		state = next
	}
	for k := range hs {
		d2 := ReadJ(aText).Diff(ReadJ(bText), o.O()...)
		sub := append(append(jd.Diff{}, d2[:k]...), d2[k+1:]...)
		var P jd.JsonNode
		var err error
		if pan := mon.Safe(func() { P, err = ReadJ(aText).Patch(sub) }); pan != "" || err != nil || P == nil {
			continue
		}
		c.Feature("precision_leave_one_out")
		if ref.EqPrec(Plain(P), b, o.Eps) {
			extra["hunk"] = hs[k].String()
			c.Violation(fmt.Sprintf("hunk %d is redundant within the tolerance: the diff without it still turns a into b", k), extra)
			return
		}
	}
	c.Sample(extra)
}

func init() {
	p := &mon.Property{
		ID: "C07",
		Rule: "cases are (a, b, option set) as in C01 over list, SET, MULTISET, SetKeys and MERGE, biased to multi-hunk diffs; each hunk is judged against a and b " +
			"(removed values present in a only, added in b only, exact surplus counts for multisets, key hunks remove a@path and add b@path and these differ), " +
			"stepwise no-op detection with the reference interpreter, and every leave-one-out sub-diff is applied with the real Patch; " +
			"operands are fresh parses or, one time in seven, the same documents as left behind by a Patch; under Precision / MERGE+Precision hunks at key paths must not mention sub-documents equal within the tolerance; " +
			"non-trivial = non-empty diff; distinct = distinct (a, b, options)",
		Floors: map[string]int{"hunks_checked": 50000, "leave_one_out_diffs": 10000, "leave_one_out_patches": 50000, "checked_set_hunk": 3000,
			"checked_multiset_hunk": 3000, "checked_merge_hunk": 3000, "checked_key_hunk": 5000, "hunk_list": 5000,
			"a_is_patch_result": 3000, "b_is_patch_result": 3000, "precision_hunks_checked": 5000, "same_document_shared_identities": 3000, "precision_leave_one_out": 3000},
		Assumptions: []string{
			"paths through list indices are relative to intermediate document states; those hunks are judged by stepwise reference interpretation (applies, changes the state) and by leave-one-out",
			"keyed members (SetKeys): a member object added by a set hunk is identified by its key tuple, not by its whole value",
		},
	}
	for _, o := range []OptSet{OptNone, OptSetO, OptMset, OptKeys1, OptKeys2, OptMerge, OptSetMerge} {
		o := o
		p.Strata = append(p.Strata, mon.Stratum{
			Name: "random/" + o.Name,
			N:    qt(12000, 1250000),
			Run: func(c *mon.Ctx, i int) {
				prof := c01Profiles[i%len(c01Profiles)]
				var a, b any
				switch {
				case o.Merge && i%3 == 0:
					a, b = gen.Pair(c.R, gen.PNulls.With(func(p *gen.Profile) { p.PArr = 0.3 })) // nulls are legal here
				case len(o.Keys) == 0 && i%5 == 4:
					a, b = gen.DeepChainPair(c.R, prof, false)
					c.Feature("deep_chain_pairs")
				case o.Reading != ref.List && !o.Merge && i%5 == 3:
					// mutated AND reordered at every level: members that only moved must not show up in hunks
					a, b = PairFor(c.R, o, prof)
					b = reorder(c.R, b, o.Reading == ref.Set)
					if len(o.Keys) > 0 {
						b = gen.Keyify(c.R, b, o.Keys)
					}
					c.Feature("reordered_pairs")
				default:
					if o.Merge && prof.Scalars[len(prof.Scalars)-1] == nil {
						prof = gen.PObjects
					}
					a, b = PairFor(c.R, o, prof)
				}
				c07Judge(c, ref.ToJSON(a), ref.ToJSON(b), o)
			},
		})
	}
	for _, o := range []OptSet{OptNone, OptSetO, OptMset, OptKeys1} {
		o := o
		p.Strata = append(p.Strata, mon.Stratum{
			Name: "zero-signs/" + o.Name,
			N:    qt(2000, 200000),
			Run: func(c *mon.Ctx, i int) {
				// 0 and -0 are the same number: a hunk that swaps one for the other reports no real difference
				prof := gen.PTiny.With(func(p *gen.Profile) { p.Scalars = []any{0.0, math.Copysign(0, -1), 1.0, "a"} })
				a, b := PairFor(c.R, o, prof)
				c.Feature("zero_sign_pairs")
				c07Judge(c, ref.ToJSON(a), ref.ToJSON(b), o)
			},
		})
	}
	for _, o := range []OptSet{OptKeys1, OptSetKeys1, OptKeys2} {
		o := o
		p.Strata = append(p.Strata, mon.Stratum{
			Name: "same-document-shared-identities/" + o.Name,
			N:    qt(3000, 150000),
			Run: func(c *mon.Ctx, i int) {
				// a document against a second parse of itself: every hunk would mention equal sub-documents
				a := sharedIdentityDoc(c.R)
				aText := ref.ToJSON(a)
				c.Input("a", aText)
				c.Input("b", aText)
				c.Input("options", o.Name)
				c.Feature("same_document_shared_identities")
				c.Nontrivial(joinKey("same", aText, o.Name))
				if hs := Hunks(ReadJ(aText).Diff(ReadJ(aText), o.O()...)); len(hs) > 0 {
					c.Violation("the diff of a document with itself has hunks: each mentions a sub-document that is equal in a and b", map[string]any{"diff": ref.HunksString(hs)})
				}
			},
		})
	}
	for _, o := range []OptSet{OptPrecision(0.1), OptMergePrec} {
		o := o
		p.Strata = append(p.Strata, mon.Stratum{
			Name: "precision/" + o.Name,
			N:    qt(6000, 400000),
			Run: func(c *mon.Ctx, i int) {
				// numbers moved by less and by more than the tolerance; strict mode on documents
				// without arrays (every hunk sits at a key path), merge mode with arrays too
				prof := gen.PObjects.With(func(p *gen.Profile) {
					p.Scalars = append(append([]any{}, numbersNear...), "a", true)
					p.PArr = 0
					if o.Merge {
						p.PArr = 0.4
					}
				})
				a := gen.Doc(c.R, prof)
				b := jitterNumbers(c.R, a, o.Eps)
				if c.R.Chance(0.6) {
					b = gen.Mutate(c.R, prof, b)
				}
				c07Precision(c, ref.ToJSON(a), ref.ToJSON(b), o)
			},
		})
	}
	p.Strata = append(p.Strata, mon.Stratum{
		Name: "long-lists",
		N:    qt(60, 1500),
		Run: func(c *mon.Ctx, i int) {
			// long lists that share almost everything: one scalar changed, one aligned container differing inside
			n := c.R.Range(200, 700)
			if i%3 == 0 {
				n = c.R.Range(1030, 1200)
			}
			a := make([]any, n)
			for j := range a {
				a[j] = float64(c.R.Intn(50))
			}
			mid := n / 2
			a[mid] = map[string]any{"p": 1.0, "q": 2.0}
			b := ref.Clone(a).([]any)
			b[mid] = map[string]any{"p": 1.0, "q": 3.0}
			b[c.R.Intn(mid)] = "changed"
			if c.R.Chance(0.5) {
				b = append(b, "tail")
			}
			c.Feature("long_list_pairs")
			c07Judge(c, ref.ToJSON(a), ref.ToJSON(b), OptNone)
		},
	})
	for w, name := range []string{"root", "under-key", "in-array"} {
		w := w
		p.Strata = append(p.Strata, mon.Stratum{
			Name:       "exh-k3n4/" + name,
			N:          n(len(arraysK3N4) * len(arraysK3N4)),
			Exhaustive: always,
			Run: func(c *mon.Ctx, i int) {
				x, y := arraysK3N4[i/len(arraysK3N4)], arraysK3N4[i%len(arraysK3N4)]
				c07Judge(c, ref.ToJSON(gen.Wrap(x, w)), ref.ToJSON(gen.Wrap(y, w)), OptNone)
			},
		})
	}
	mon.Register(p)
}
