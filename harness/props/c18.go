package props

import (
	"fmt"

	lib "github.com/josephburnett/jd/lib"

	"verifharness/gen"
	"verifharness/mon"
	"verifharness/ref"
)

func hasDashKey(v any) bool {
	switch t := v.(type) {
	case []any:
		for _, e := range t {
			if hasDashKey(e) {
				return true
			}
		}
	case map[string]any:
		for k, e := range t {
			if k == "-" || hasDashKey(e) {
				return true
			}
		}
	}
	return false
}

func c18Patch(c *mon.Ctx, aText, bText string) {
	c.Input("a", aText)
	c.Input("b", bText)
	a, b := ref.MustJSON(aText), ref.MustJSON(bText)
	mk := func() lib.Diff { return ReadJ1(aText).Diff(ReadJ1(bText)) }
	d := mk()
	native := d.Render()
	txt, err := mk().RenderPatch()
	c.Input("json_patch", txt)
	extra := map[string]any{"native_diff": native}
	if err != nil {
		if hasDashKey(a) || hasDashKey(b) {
			c.Feature("refused_dash_key")
			return
		}
		c.Violation("(v1) RenderPatch refused a list-mode diff: "+err.Error(), extra)
		return
	}
	if len(d) > 0 {
		c.Nontrivial(joinKey(aText, bText))
	}
	ops, perr := ref.ParsePatch(txt)
	if perr != nil {
		c.Violation("(v1) rendered JSON Patch is not well formed: "+perr.Error(), extra)
		return
	}
	for _, o := range ops {
		c.Feature("op:" + o.Op)
		if len(o.Path) > 0 && o.Path[len(o.Path)-1] == '-' && (len(o.Path) == 1 || o.Path[len(o.Path)-2] == '/') {
			c.Feature("append_token_rendered")
		}
	}
	got, aerr := ref.Apply6902(a, ops)
	if aerr != nil {
		c.Violation("(v1) the rendered JSON Patch does not apply to a under RFC 6902: "+aerr.Error(), extra)
		return
	}
	if !ref.Eq(got, b, ref.List) {
		extra["rfc_result"] = ref.ToJSON(got)
		c.Violation("(v1) the rendered JSON Patch, evaluated on a, does not yield b", extra)
		return
	}
	c.Feature("rfc6902_gives_b")
	// read back with the v1 reader
	d2, err := lib.ReadPatchString(txt)
	if err != nil {
		c.Violation("(v1) ReadPatchString rejects v1's own JSON Patch output: "+err.Error(), extra)
		return
	}
	var P lib.JsonNode
	if pan := mon.Safe(func() { P, err = ReadJ1(aText).Patch(d2) }); pan != "" {
		extra["panic"] = pan
		c.Violation("(v1) Patch of the re-read JSON Patch panicked", extra)
		return
	}
	if err != nil || P == nil {
		c.Violation("(v1) the re-read JSON Patch does not apply to a: "+fmt.Sprint(err), extra)
		return
	}
	if !P.Equals(ReadJ1(bText)) || !ref.Eq(Plain1(P), b, ref.List) {
		extra["patched"] = P.Json()
		c.Violation("(v1) the re-read JSON Patch does not turn a into b", extra)
		return
	}
	c.Feature("patch_read_back_gives_b")
	c.Sample(extra)
}

func c18Merge(c *mon.Ctx, aText, bText string) {
	c.Input("a", aText)
	c.Input("b", bText)
	a, b := ref.MustJSON(aText), ref.MustJSON(bText)
	if ref.Eq(a, b, ref.List) || ref.IsVoid(a) || ref.IsVoid(b) {
		c.Skip("a equals b, or void (the property demands null-free documents that differ)")
		return
	}
	mk := func() lib.Diff { return ReadJ1(aText).Diff(ReadJ1(bText), lib.MERGE) }
	native := mk().Render()
	m, err := mk().RenderMerge()
	c.Input("merge_patch", m)
	extra := map[string]any{"native_diff": native}
	if err != nil {
		c.Violation("(v1) RenderMerge failed: "+err.Error(), extra)
		return
	}
	pv, perr := ref.FromJSON(m)
	if perr != nil || ref.IsVoid(pv) {
		c.Violation("(v1) RenderMerge output is not a JSON document", extra)
		return
	}
	c.Nontrivial(joinKey("merge", aText, bText))
	if got := ref.MergePatch(a, pv); !ref.Eq(got, b, ref.List) {
		extra["rfc_result"] = ref.ToJSON(got)
		c.Violation("(v1) RFC 7386 MergePatch(a, rendered merge patch) does not yield b", extra)
		return
	}
	c.Feature("rfc7386_gives_b")
	if ref.HasNull(pv) {
		c.Feature("merge_patch_deletes")
	}
	d2, err := lib.ReadMergeString(m)
	if err != nil {
		c.Violation("(v1) ReadMergeString rejects v1's own merge patch: "+err.Error(), extra)
		return
	}
	var P lib.JsonNode
	if pan := mon.Safe(func() { P, err = ReadJ1(aText).Patch(d2) }); pan != "" {
		extra["panic"] = pan
		c.Violation("(v1) Patch of the re-read merge patch panicked", extra)
		return
	}
	reason := ""
	if err != nil || P == nil {
		reason = "(v1) the re-read merge patch does not apply to a: " + fmt.Sprint(err)
	} else if !ref.Eq(Plain1(P), b, ref.List) {
		extra["patched"] = P.Json()
		reason = "(v1) the re-read merge patch does not turn a into b"
	}
	if reason != "" {
		// F18: the patch document {} is read as the empty diff
		if o, isObj := pv.(map[string]any); isObj && len(o) == 0 && P != nil && ref.Eq(Plain1(P), a, ref.List) {
			c.Known("F18", reason, extra)
			return
		}
		c.Violation(reason, extra)
		return
	}
	c.Feature("merge_read_back_gives_b")
	c.Sample(extra)
}

// nullsIntoArrays inserts null elements into some arrays of v (never as an
// object member value).
func nullsIntoArrays(r *gen.RNG, v any) any {
	switch t := v.(type) {
	case []any:
		out := make([]any, 0, len(t)+2)
		for _, e := range t {
			if r.Chance(0.2) {
				out = append(out, nil)
			}
			out = append(out, nullsIntoArrays(r, e))
		}
		if r.Chance(0.25) {
			out = append(out, nil)
		}
		return out
	case map[string]any:
		for _, k := range ref.SortedKeys(t) {
			t[k] = nullsIntoArrays(r, t[k])
		}
		return t
	}
	return v
}

func init() {
	p := &mon.Property{
		ID: "C18",
		Rule: "v1 (package lib): list-mode (a, b) pairs incl. keys that look like integers (kept by v1), keys needing pointer escaping, arrays growing (-1 append rendered as '/-'), shrinking and changing in place; merge-mode pairs that differ, null-free or with nulls as array elements only; " +
			"RenderPatch is evaluated by the harness's RFC 6902 evaluator and RenderMerge by the RFC 7386 pseudocode on a (must give b); both texts are read back with the v1 readers and applied to a (must give b); non-trivial = non-empty diff; distinct = distinct (a, b)",
		Floors: map[string]int{"rfc6902_gives_b": 20000, "patch_read_back_gives_b": 20000, "rfc7386_gives_b": 10000, "merge_read_back_gives_b": 10000, "append_token_rendered": 3000, "integer_like_keys": 3000, "merge_patch_deletes": 2000, "b_has_null_array_elements": 2000, "long_array_pairs": 2000, "refused_dash_key": 50},
		Assumptions: []string{"same RFC 6902 root-replacement reading as C09 (DESIGN 5.9)", "merge-mode documents differ and carry no null as an object member value (RFC 7386 cannot express one); null elements of arrays are used"},
	}
	numKeys := gen.PHostile.With(func(p *gen.Profile) { p.Keys = append(append([]string{}, gen.KeysHostile...), "0", "1", "2", "12", "01", "-1", "+1", "1e3", "-") })
	profs := []gen.Profile{gen.PDefault, gen.PTiny, gen.PDeep, gen.PNulls, gen.PHostile, numKeys, gen.PNumbers, gen.PSyntaxy}
	p.Strata = append(p.Strata, mon.Stratum{
		Name: "patch/random-pairs",
		N:    qt(40000, 6000000),
		Run: func(c *mon.Ctx, i int) {
			prof := profs[i%len(profs)]
			if i%len(profs) == 5 {
				c.Feature("integer_like_keys")
			}
			a, b := gen.Pair(c.R, prof)
			if i%7 == 6 {
				a, b = gen.DeepChainPair(c.R, prof, false)
			}
			c18Patch(c, ref.ToJSON(a), ref.ToJSON(b))
		},
	})
	p.Strata = append(p.Strata, mon.Stratum{
		Name: "patch/long-arrays",
		N:    qt(3000, 300000),
		Run: func(c *mon.Ctx, i int) {
			x, y := gen.LongArrayPair(c.R)
			c.Feature("long_array_pairs")
			if i%4 == 3 {
				// many hunks for one member next to members that appear, change and go: the order of the hunks matters
				c18Patch(c, ref.ToJSON(map[string]any{"k": x, "m": 1.0, "gone": true}), ref.ToJSON(map[string]any{"a": 1.0, "k": y, "m": 2.0, "z": []any{}}))
				return
			}
			c18Patch(c, ref.ToJSON(gen.Wrap(x, i%3)), ref.ToJSON(gen.Wrap(y, i%3)))
		},
	})
	for w, name := range []string{"root", "under-key", "in-array"} {
		w := w
		p.Strata = append(p.Strata, mon.Stratum{
			Name:       "patch/exh-k3n4/" + name,
			N:          n(len(arraysK3N4) * len(arraysK3N4)),
			Exhaustive: always,
			Run: func(c *mon.Ctx, i int) {
				x, y := arraysK3N4[i/len(arraysK3N4)], arraysK3N4[i%len(arraysK3N4)]
				c18Patch(c, ref.ToJSON(gen.Wrap(x, w)), ref.ToJSON(gen.Wrap(y, w)))
			},
		})
	}
	p.Strata = append(p.Strata, mon.Stratum{
		Name: "merge/random-pairs",
		N:    qt(30000, 4800000),
		Run: func(c *mon.Ctx, i int) {
			prof := mergeProfiles[i%len(mergeProfiles)]
			a, b := gen.Pair(c.R, prof)
			if i%11 == 0 {
				b = map[string]any{}
			}
			if i%6 == 5 {
				a, b = gen.DeepChainPair(c.R, prof, true)
			}
			c18Merge(c, ref.ToJSON(a), ref.ToJSON(b))
		},
	})
	p.Strata = append(p.Strata, mon.Stratum{
		Name: "merge/nulls-inside-arrays",
		N:    qt(8000, 800000),
		Run: func(c *mon.Ctx, i int) {
			// null is only special as an object member of a merge patch: an array is a
			// non-object value and replaces the target verbatim, nulls included
			prof := mergeProfiles[i%len(mergeProfiles)].With(func(p *gen.Profile) { p.PArr = 0.5 })
			a, b := gen.Pair(c.R, prof)
			a, b = nullsIntoArrays(c.R, a), nullsIntoArrays(c.R, b)
			if ref.HasNull(b) {
				c.Feature("b_has_null_array_elements")
			}
			c18Merge(c, ref.ToJSON(a), ref.ToJSON(b))
		},
	})
	small := smallMergeDocs(false)
	p.Strata = append(p.Strata, mon.Stratum{
		Name:       "merge/exh-small-docs",
		N:          n(len(small) * len(small)),
		Exhaustive: always,
		Run: func(c *mon.Ctx, i int) {
			c18Merge(c, small[i/len(small)], small[i%len(small)])
		},
	})
	mon.Register(p)
}
