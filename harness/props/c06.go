package props

import (
	"fmt"

	jd "github.com/josephburnett/jd/v2"

	"verifharness/gen"
	"verifharness/mon"
	"verifharness/ref"
)

func isContainerKind(v any) string {
	switch v.(type) {
	case []any:
		return "array"
	case map[string]any:
		return "object"
	}
	return ""
}

// c06Context checks, for every hunk whose path ends in an index, that it
// carries exactly one line of before-context and one of after-context equal
// to the neighbouring elements (or the boundary) of the document state the
// hunk applies to, and that no hunk replaces a same-position container of
// the same kind instead of recursing into it.
func c06Context(c *mon.Ctx, a any, hs []ref.Hunk) bool {
	state := ref.Clone(a)
	for k, h := range hs {
		if len(h.Path) > 0 && h.Path[len(h.Path)-1].Kind == ref.KIndex {
			c.Feature("index_hunks")
			if len(h.Before) != 1 || len(h.After) != 1 {
				c.Violation(fmt.Sprintf("hunk %d edits an array position but carries %d before and %d after context lines (want exactly 1 and 1)", k, len(h.Before), len(h.After)),
					map[string]any{"hunk": h.String()})
				return false
			}
			v, isArr, ok := ref.Navigate(state, h.Path)
			if !ok || !isArr {
				c.Violation(fmt.Sprintf("hunk %d addresses %s which is not an array position in the document state it applies to", k, h.PathString()), map[string]any{"hunk": h.String(), "state": ref.ToJSON(state)})
				return false
			}
			arr := v.([]any)
			i := h.Path[len(h.Path)-1].Index
			var wantB, wantA any = ref.Void{}, ref.Void{}
			if i-1 >= 0 && i-1 < len(arr) {
				wantB = arr[i-1]
				c.Feature("before_is_element")
			} else {
				c.Feature("before_is_boundary")
			}
			if j := i + len(h.Remove); j < len(arr) {
				wantA = arr[j]
				c.Feature("after_is_element")
			} else {
				c.Feature("after_is_boundary")
			}
			if i < 0 || i > len(arr) || !ref.Eq(h.Before[0], wantB, ref.List) || !ref.Eq(h.After[0], wantA, ref.List) {
				c.Violation(fmt.Sprintf("hunk %d context is not the neighbouring elements: before=%s (neighbour %s) after=%s (neighbour %s)", k,
					ref.ToJSON(h.Before[0]), ref.ToJSON(wantB), ref.ToJSON(h.After[0]), ref.ToJSON(wantA)),
					map[string]any{"hunk": h.String(), "array_in_state": ref.ToJSON(arr)})
				return false
			}
			for j := 0; j < len(h.Remove) && j < len(h.Add); j++ {
				if kind := isContainerKind(h.Remove[j]); kind != "" && kind == isContainerKind(h.Add[j]) {
					c.Violation(fmt.Sprintf("hunk %d replaces the %s at offset %d by another %s instead of recursing into it", k, kind, j, kind), map[string]any{"hunk": h.String()})
					return false
				}
			}
		}
		if (len(h.Path) == 0 || h.Path[len(h.Path)-1].Kind != ref.KIndex) && (len(h.Before) > 0 || len(h.After) > 0) {
			c.Violation(fmt.Sprintf("hunk %d edits no array position (path %s) but carries context lines", k, h.PathString()), map[string]any{"hunk": h.String()})
			return false
		}
		next, err := ref.RefPatch(state, hs[k:k+1], ref.Dev{})
		if err != nil {
			c.Violation(fmt.Sprintf("hunk %d does not apply to the document state produced by the earlier hunks: %v", k, err), map[string]any{"hunk": h.String(), "state": ref.ToJSON(state)})
			return false
		}
		state = next
	}
	return true
}

// c06Judge: a and b are documents that differ only in one array (arrA ->
// arrB) located at a fixed wrapping; scalarOnly says all elements are
// scalars, in which case the counts must equal the optimum exactly.
func c06Judge(c *mon.Ctx, arrA, arrB []any, wrap int, scalarOnly bool) {
	a, b := gen.Wrap(arrA, wrap), gen.Wrap(arrB, wrap)
	aText, bText := ref.ToJSON(a), ref.ToJSON(b)
	c.Input("a", aText)
	c.Input("b", bText)
	B := ReadJ(bText)
	if c.R.Chance(0.25) {
		// b as the in-memory result of a Patch: the same document, but made of the nodes Patch builds
		if P, ok := viaPatch(c.R, b); ok {
			B = P
			c.Input("b_built_by", "Patch (not re-parsed)")
			c.Feature("b_is_patch_result")
		}
	}
	d := operand(c, aText, "a", 0.2)().Diff(B)
	hs := Hunks(d)
	diffFeatures(c, hs)
	if len(hs) > 0 {
		c.Nontrivial(joinKey(aText, bText))
	}
	if !c06Context(c, a, hs) {
		return
	}
	depth := []int{1, 2, 2, 3}[wrap]
	rm, ad := 0, 0
	for _, h := range hs {
		if len(h.Path) == depth && h.Path[depth-1].Kind == ref.KIndex {
			rm += len(h.Remove)
			ad += len(h.Add)
		} else if len(h.Path) <= depth {
			c.Violation("the edited array was replaced wholesale or addressed at the wrong depth", map[string]any{"diff": ref.HunksString(hs)})
			return
		}
	}
	l := ref.LCSLen(arrA, arrB)
	optR, optA := len(arrA)-l, len(arrB)-l
	extra := map[string]any{"diff": ref.HunksString(hs), "removed": rm, "added": ad, "lcs": l, "optimal_removed": optR, "optimal_added": optA}
	if rm > optR || ad > optA {
		c.Violation(fmt.Sprintf("list diff is not minimal: removes %d (optimum %d), adds %d (optimum %d)", rm, optR, ad, optA), extra)
		return
	}
	if scalarOnly && (rm != optR || ad != optA) {
		c.Violation(fmt.Sprintf("list diff of scalar arrays removes %d / adds %d, expected exactly len-LCS = %d / %d", rm, ad, optR, optA), extra)
		return
	}
	if len(arrA) >= 8 || len(arrB) >= 8 {
		c.Feature("long_array")
	}
	c.Sample(extra)
}

// viaPatch builds the document b as the in-memory result of patching a
// perturbed copy of b back into b (so it contains whatever node types Patch
// produces), checked equal to b.
func viaPatch(r *gen.RNG, b any) (jd.JsonNode, bool) {
	other := gen.Perturb(r, gen.PTiny, b)
	if r.Chance(0.3) {
		other = fillEmptyArrays(r, ref.Clone(b)) // so that the patch that builds b empties some list completely
	}
	oText, bText := ref.ToJSON(other), ref.ToJSON(b)
	// the patch that builds b may itself be a list, set, multiset or merge patch
	modes := []OptSet{OptNone, OptNone, OptSetO, OptMset}
	if !ref.HasNull(b) && !ref.HasNull(other) {
		modes = append(modes, OptMerge)
	}
	o := gen.Pick(r, modes)
	var P jd.JsonNode
	var err error
	if pan := mon.Safe(func() { P, err = ReadJ(oText).Patch(ReadJ(oText).Diff(ReadJ(bText), o.O()...)) }); pan != "" || err != nil || P == nil {
		return nil, false
	}
	if !ref.Eq(Plain(P), b, ref.List) {
		return nil, false // a set / multiset patch may legitimately reorder: only exact copies of b are used
	}
	return P, true
}

// operand returns a factory of fresh jd values for the document text: freshly
// parsed, or (with probability p, when such a build exists) the very same
// document as the in-memory result of a Patch, whose nodes are the ones
// Patch builds and leaves behind.
func operand(c *mon.Ctx, text string, side string, p float64) func() jd.JsonNode {
	fresh := func() jd.JsonNode { return ReadJ(text) }
	if !c.R.Chance(p) {
		return fresh
	}
	seed := c.R.U64()
	v := ref.MustJSON(text)
	if ref.IsVoid(v) {
		return fresh
	}
	if _, ok := viaPatch(gen.New(seed), v); !ok {
		return fresh
	}
	c.Input(side+"_built_by", "Patch (not re-parsed)")
	c.Feature(side + "_is_patch_result")
	return func() jd.JsonNode {
		P, _ := viaPatch(gen.New(seed), v)
		return P
	}
}

// fillEmptyArrays puts elements into every empty array of v.
func fillEmptyArrays(r *gen.RNG, v any) any {
	switch t := v.(type) {
	case []any:
		if len(t) == 0 {
			return []any{gen.Scalar(r, gen.PTiny), gen.Scalar(r, gen.PTiny)}
		}
		for i := range t {
			t[i] = fillEmptyArrays(r, t[i])
		}
	case map[string]any:
		for _, k := range ref.SortedKeys(t) {
			t[k] = fillEmptyArrays(r, t[k])
		}
	}
	return v
}

func init() {
	p := &mon.Property{
		ID: "C06",
		Rule: "cases are list-mode array pairs: every pair over {1,2,3} up to length 4 (quick) / 5 (thorough) and over {1,2} up to length 7 (thorough) at four nesting positions, " +
			"random long arrays (<=40) over tiny alphabets, arrays of 100-600 elements with a few localised edits, arrays mixing scalars with aligned same-kind containers that differ inside, and random nested documents (context only); " +
			"oracle: textbook LCS DP for the edit counts, stepwise reference interpretation for the context lines; non-trivial = non-empty diff; distinct = distinct (a, b)",
		Floors: map[string]int{"index_hunks": 20000, "before_is_element": 5000, "before_is_boundary": 5000, "after_is_element": 5000, "after_is_boundary": 5000,
			"long_array": 2000, "very_long_array": 1000, "b_is_patch_result": 5000, "a_is_patch_result": 5000, "array_over_1024": 30, "mixed_recursed": 500, "blank_element_pairs": 10000, "old_value_copied_further_along": 500, "hunk_nested_arrays": 2000},
		Assumptions: []string{
			"minimality is a count against the optimum (len - LCS on each side), not identity of the script: several optimal scripts exist",
			"for arrays holding containers only the upper bound is demanded (recursing removes fewer elements than an LCS over whole values)",
			"context is checked against the document state after the earlier hunks (indices are result-relative), computed by the reference interpreter",
		},
	}
	for w, name := range []string{"root", "under-key", "in-array", "array-in-object-in-array"} {
		w := w
		p.Strata = append(p.Strata, mon.Stratum{
			Name:       "exh-k3/" + name,
			N:          func(t mon.Tier) int { k := len(exhArrays(t)); return k * k },
			Exhaustive: always,
			Run: func(c *mon.Ctx, i int) {
				arrs := exhArrays(c.Tier)
				c06Judge(c, arrs[i/len(arrs)], arrs[i%len(arrs)], w, true)
			},
		})
	}
	p.Strata = append(p.Strata, mon.Stratum{
		Name: "exh-k2-n7/root",
		N: func(t mon.Tier) int {
			if t == mon.Thorough {
				return len(arraysK2N7) * len(arraysK2N7)
			}
			return 0
		},
		Exhaustive: always,
		Run: func(c *mon.Ctx, i int) {
			c06Judge(c, arraysK2N7[i/len(arraysK2N7)], arraysK2N7[i%len(arraysK2N7)], 0, true)
		},
	})
	p.Strata = append(p.Strata, mon.Stratum{
		Name: "random-long-scalar-arrays",
		N:    qt(30000, 2000000),
		Run: func(c *mon.Ctx, i int) {
			alpha := [][]any{{1.0, 2.0}, {1.0, 2.0, 3.0}, {"a", "b", 1.0, true}, {0.0, 1.0, 2.0, 3.0, 4.0, 5.0},
				{nil, "null", true, "true", false, "false", 0.0, "0", ""}}[i%5]
			prof := gen.PTiny.With(func(p *gen.Profile) { p.Scalars = alpha })
			a := gen.Array(c.R, prof, c.R.Range(0, 40), 0)
			var b []any
			if c.R.Chance(0.2) {
				b = gen.Array(c.R, prof, c.R.Range(0, 40), 0)
			} else {
				b = mutateScalarArray(c.R, prof, a)
			}
			c06Judge(c, a, b, i%4, true)
		},
	})
	p.Strata = append(p.Strata, mon.Stratum{
		Name: "blank-elements",
		N:    qt(20000, 1000000),
		Run: func(c *mon.Ctx, i int) {
			// arrays over blank values (null, "", {}, []) and a few others: a blank is an element like any
			// other, also as the only thing between two edits
			prof := gen.PTiny.With(func(p *gen.Profile) { p.Scalars = []any{nil, "", map[string]any{}, []any{}, 1.0, "a", "b"} })
			a := gen.Array(c.R, prof, c.R.Range(1, 8), 0)
			b := mutateScalarArray(c.R, prof, a)
			if c.R.Chance(0.5) {
				b = mutateScalarArray(c.R, prof, b)
			}
			c.Feature("blank_element_pairs")
			c06Judge(c, a, b, i%4, true)
		},
	})
	p.Strata = append(p.Strata, mon.Stratum{
		Name: "long-arrays-localised-edits",
		N:    qt(1500, 60000),
		Run: func(c *mon.Ctx, i int) {
			// arrays of 100-600 elements with a few edits near the head, the tail and in between
			k := []int{3, 8, 40, 1000}[i%4]
			alpha := make([]any, k)
			for j := range alpha {
				alpha[j] = float64(j)
			}
			prof := gen.PTiny.With(func(p *gen.Profile) { p.Scalars = alpha })
			n := c.R.Range(100, 600)
			if i%25 == 0 {
				n = c.R.Range(1030, 1300) // beyond any plausible "small table" shortcut
				c.Feature("array_over_1024")
			}
			a := gen.Array(c.R, prof, n, 0)
			b := append([]any{}, a...)
			for e := c.R.Range(2, 5); e > 0; e-- {
				var pos int
				switch c.R.Intn(3) {
				case 0:
					pos = c.R.Intn(5)
				case 1:
					pos = len(b) - 1 - c.R.Intn(5)
				default:
					pos = c.R.Intn(len(b))
				}
				if pos < 0 {
					pos = 0
				}
				switch c.R.Intn(3) {
				case 0:
					b = append(append(append([]any{}, b[:pos]...), "new"), b[pos:]...)
				case 1:
					b = append(append([]any{}, b[:pos]...), b[pos+1:]...)
				default:
					b[pos] = "changed"
				}
			}
			c.Feature("very_long_array")
			c06Judge(c, a, b, i%2, true)
		},
	})
	p.Strata = append(p.Strata, mon.Stratum{
		Name: "mixed-containers-aligned",
		N:    qt(30000, 1200000),
		Run: func(c *mon.Ctx, i int) {
			prof := gen.PTiny
			n := c.R.Range(1, 10)
			a := gen.Array(c.R, prof, n, 0.4)
			b := make([]any, len(a))
			recursed := false
			for k, e := range a {
				b[k] = ref.Clone(e)
				if isContainerKind(e) != "" && c.R.Chance(0.6) {
					m := changeInside(c.R, prof, ref.Clone(e))
					if isContainerKind(m) == isContainerKind(e) && !ref.Eq(m, e, ref.List) {
						b[k] = m
						recursed = true
					}
				} else if isContainerKind(e) == "" && c.R.Chance(0.2) {
					b[k] = gen.Scalar(c.R, prof)
				}
			}
			if recursed {
				c.Feature("mixed_recursed")
			}
			if recursed && i%3 == 0 {
				// a copy of a container's OLD value turns up further along in b (a record was duplicated, then the
				// original edited), or a copy of a NEW value further along in a: the aligned pair is still a change in place
				for k := range a {
					if isContainerKind(a[k]) != "" && !ref.Eq(a[k], b[k], ref.List) {
						if i%6 == 0 {
							b = append(b, ref.Clone(a[k]))
						} else {
							a = append(a, ref.Clone(b[k]))
						}
						c.Feature("old_value_copied_further_along")
						break
					}
				}
			}
			c06Judge(c, a, b, i%4, false)
		},
	})
	p.Strata = append(p.Strata, mon.Stratum{
		Name: "random-nested-context",
		N:    qt(30000, 1200000),
		Run: func(c *mon.Ctx, i int) {
			prof := []gen.Profile{gen.PDefault, gen.PTiny, gen.PDeep, gen.PNulls}[i%4]
			a, b := gen.Pair(c.R, prof)
			aText, bText := ref.ToJSON(a), ref.ToJSON(b)
			c.Input("a", aText)
			c.Input("b", bText)
			hs := Hunks(ReadJ(aText).Diff(ReadJ(bText)))
			diffFeatures(c, hs)
			if len(hs) > 0 {
				c.Nontrivial(joinKey(aText, bText))
			}
			c06Context(c, a, hs)
		},
	})
	mon.Register(p)
}

func mutateScalarArray(r *gen.RNG, p gen.Profile, a []any) []any {
	b := append([]any{}, a...)
	for e := r.Range(1, 4); e > 0; e-- {
		n := len(b)
		switch r.Intn(4) {
		case 0:
			i := r.Intn(n + 1)
			run := r.Range(1, 3)
			ins := make([]any, run)
			for k := range ins {
				ins[k] = gen.Scalar(r, p)
			}
			b = append(append(append([]any{}, b[:i]...), ins...), b[i:]...)
		case 1:
			if n > 0 {
				i := r.Intn(n)
				j := i + r.Range(1, 3)
				if j > n {
					j = n
				}
				b = append(append([]any{}, b[:i]...), b[j:]...)
			}
		case 2:
			if n > 0 {
				b[r.Intn(n)] = gen.Scalar(r, p)
			}
		default:
			if n > 1 {
				i, j := r.Intn(n), r.Intn(n)
				b[i], b[j] = b[j], b[i]
			}
		}
	}
	return b
}

// changeInside edits a container without changing its kind.
func changeInside(r *gen.RNG, p gen.Profile, v any) any {
	switch t := v.(type) {
	case []any:
		if len(t) > 0 && r.Chance(0.5) {
			t[r.Intn(len(t))] = gen.Scalar(r, p)
			return t
		}
		return append(t, gen.Scalar(r, p))
	case map[string]any:
		t[gen.Pick(r, p.Keys)] = gen.Scalar(r, p)
		return t
	}
	return v
}
