package props

import (
	"fmt"

	jd "github.com/josephburnett/jd/v2"

	"verifharness/gen"
	"verifharness/mon"
	"verifharness/ref"
)

// lastCollectionPath returns the path prefix of the array a hunk addresses
// (for set / multiset hunks the array itself; for keyed hunks the array
// holding the member).
func addressedArrayPath(h ref.Hunk) ([]ref.PathEl, bool) {
	for i, e := range h.Path {
		if e.Kind == ref.KSet || e.Kind == ref.KMultiset || e.Kind == ref.KSetKeys {
			return h.Path[:i], true
		}
	}
	return nil, false
}

// c08Targets builds hostile targets for a set-mode diff of a.
func c08Targets(c *mon.Ctx, prof gen.Profile, a, b any, hs []ref.Hunk, o OptSet) [][2]string {
	r := c.R
	out := [][2]string{{ref.ToJSON(a), "a"}}
	out = append(out, [2]string{ref.ToJSON(reorder(r, ref.Clone(a), false)), "permutation-of-a"})
	if r.Chance(0.3) {
		out = append(out, [2]string{ref.ToJSON(b), "b"})
	}
	pert := gen.Perturb(r, prof, a)
	if len(o.Keys) > 0 {
		pert = gen.Keyify(r, pert, o.Keys)
	}
	out = append(out, [2]string{ref.ToJSON(pert), "random-perturbation"})
	// targeted at the addressed array of one hunk
	h := hs[r.Intn(len(hs))]
	if pp, ok := addressedArrayPath(h); ok {
		kind := ""
		t, ok := editAt(a, pp, func(v any) any {
			l, isArr := v.([]any)
			if !isArr {
				return v
			}
			switch r.Intn(9) {
			case 8:
				// a member lacking one of the keys gets a neighbour, placed before it, that
				// agrees on the keys the member has and carries the one it lacks
				kind = "partial-key-decoy-first"
				if len(o.Keys) >= 2 {
					for j, e := range l {
						m, isObj := e.(map[string]any)
						if !isObj {
							continue
						}
						for _, k := range o.Keys {
							if _, has := m[k]; has {
								continue
							}
							decoy := ref.Clone(m).(map[string]any)
							decoy[k] = "decoy"
							out := append([]any{}, l[:j]...)
							out = append(out, decoy)
							return append(out, l[j:]...)
						}
					}
				}
			case 0:
				kind = "non-array:scalar"
				return gen.Scalar(r, prof)
			case 1:
				kind = "non-array:object"
				return map[string]any{"x": l}
			case 2:
				kind = "removed-element-absent"
				if len(h.Remove) > 0 {
					var keep []any
					cr := ref.Canon(h.Remove[0], o.Reading)
					for _, e := range l {
						if ref.Canon(e, o.Reading) != cr {
							keep = append(keep, e)
						}
					}
					if keep == nil {
						keep = []any{}
					}
					return keep
				}
			case 3:
				kind = "one-copy-fewer"
				if len(h.Remove) > 0 {
					cr := ref.Canon(h.Remove[0], o.Reading)
					for j, e := range l {
						if ref.Canon(e, o.Reading) == cr {
							return append(append([]any{}, l[:j]...), l[j+1:]...)
						}
					}
				}
			case 4:
				kind = "member-added"
				l = append(l, gen.Scalar(r, prof))
				gen.Shuffle(r, l)
				return l
			case 5:
				kind = "member-duplicated"
				if len(l) > 0 {
					l = append(l, ref.Clone(l[r.Intn(len(l))]))
					gen.Shuffle(r, l)
					return l
				}
			case 7:
				kind = "swapped-key-tuple-decoy"
				if len(o.Keys) >= 2 {
					for _, e := range l {
						m, isObj := e.(map[string]any)
						if !isObj {
							continue
						}
						if _, has := m[o.Keys[0]]; !has {
							continue
						}
						decoy := ref.Clone(m).(map[string]any)
						decoy[o.Keys[0]], decoy[o.Keys[1]] = m[o.Keys[1]], m[o.Keys[0]]
						return append([]any{decoy}, l...) // before the addressed member
					}
				}
			default:
				kind = "keyed-member-nonkey-field-changed"
				var idx []int
				for j, e := range l {
					if _, isObj := e.(map[string]any); isObj {
						idx = append(idx, j)
					}
				}
				if len(idx) > 0 {
					m := l[gen.Pick(r, idx)].(map[string]any)
					var fields []string
					isKey := map[string]bool{}
					for _, k := range o.Keys {
						isKey[k] = true
					}
					for _, k := range ref.SortedKeys(m) {
						if !isKey[k] {
							fields = append(fields, k)
						}
					}
					if len(fields) > 0 {
						f := gen.Pick(r, fields)
						switch r.Intn(3) {
						case 0:
							delete(m, f)
						case 1:
							m[f] = gen.Scalar(r, prof)
						default:
							m[f] = []any{m[f]}
						}
						gen.Shuffle(r, l)
						return l
					}
				}
			}
			kind = "unchanged"
			return l
		})
		if ok && t != nil {
			if kind == "" {
				kind = "unchanged"
			}
			out = append(out, [2]string{ref.ToJSON(t), "addressed:" + kind})
		}
		// remove the addressed array altogether (only possible under a key)
		if len(pp) > 0 && pp[len(pp)-1].Kind == ref.KKey && r.Chance(0.2) {
			if t, ok := editAt(a, pp[:len(pp)-1], func(v any) any {
				if m, isObj := v.(map[string]any); isObj {
					delete(m, pp[len(pp)-1].Key)
				}
				return v
			}); ok {
				out = append(out, [2]string{ref.ToJSON(t), "addressed:array-removed"})
			}
		}
	}
	return out
}

func c08Case(c *mon.Ctx, aText, bText string, o OptSet, prof gen.Profile) {
	c.Input("a", aText)
	c.Input("b", bText)
	c.Input("options", o.Name)
	a, b := ref.MustJSON(aText), ref.MustJSON(bText)
	full := ReadJ(aText).Diff(ReadJ(bText), o.O()...)
	if len(full) == 0 {
		c.Skip("empty diff")
		return
	}
	hs := Hunks(full)
	diffFeatures(c, hs)
	for _, t := range c08Targets(c, prof, a, b, hs, o) {
		c.Feature("target:" + t[1])
		c.Feature("patch_events")
		c.Event()
		viaText := c.R.Chance(0.5)
		reason, knownID, extra := judgePatch(c, ReadJ(aText).Diff(ReadJ(bText), o.O()...), t[0], o.Reading, viaText)
		if t[1] != "a" {
			c.Nontrivial(joinKey(aText, bText, o.Name, t[0]))
		}
		if reason == "" {
			if t[1] != "a" {
				c.Sample(extra)
			}
			continue
		}
		extra["target_kind"] = t[1]
		if knownID != "" {
			c.Known(knownID, reason, extra)
		} else {
			c.Violation(reason, extra)
			return
		}
	}
}

func init() {
	p := &mon.Property{
		ID: "C08",
		Rule: "cases are (a, b) pairs diffed under SET, MULTISET, SetKeys(id), SetKeys(id,k2), SET+SetKeys(id); each diff is applied (in memory or re-read) to a, permutations of a, b, random perturbations, " +
			"and targets built at the addressed array: replaced by a scalar / an object / removed, the removed member absent, one copy fewer (multiset), a member added or duplicated, a keyed member with a non-key field changed, a decoy carrying the key a partial-key member lacks placed before it; under two keys some members lack one key (the same members in a and b, hunks then carry null for it); " +
			"plus constructed {} / [] hunks no single Diff emits (a value under both - and +, more copies removed than present, members added that are already there) over a small alphabet; members that are 1-70 KB strings differing in one middle byte, multiplicities up to 300; " +
			"every Patch event is compared with the reference set / bag / keyed-member interpreter under the set or multiset reading; non-trivial = target is not a itself; distinct = distinct (a, b, options, target)",
		Floors: map[string]int{"patch_events": 100000, "both_apply": 20000, "both_reject": 10000, "target:permutation-of-a": 10000,
			"target:addressed:non-array:scalar": 500, "target:addressed:removed-element-absent": 300, "target:addressed:one-copy-fewer": 300,
			"target:addressed:keyed-member-nonkey-field-changed": 300, "reject:set remove": 300, "reject:multiset remove": 300, "reject:no member": 100, "hunk_keyed_member": 1000,
			"members_lacking_a_key": 1000, "bulky_member_cases": 1000, "high_multiplicity": 100, "constructed_hunks": 5000, "constructed_hunk_removes_and_adds_one_value": 1000, "alias_twin_removal": 500},
		Assumptions: []string{
			"reference semantics: {} hunk = every removed value present under the recursive set reading, added values inserted if absent, others untouched; [] hunk = by multiplicities; {\"k\":v} = the member object whose k fields equal v, rest of the path applied strictly inside it, any failure fails the patch",
			"SetKeys inputs satisfy the stated precondition; key values are scalars; key tuples never permutations of each other (known finding F21 lives in C01)",
			"whole-value key hunks (e.g. @ [\"k\"] - [1,2]) compare under the list reading, as the diff encodes no reading for them",
		},
	}
	for _, o := range []OptSet{OptSetO, OptMset, OptKeys1, OptKeys2, OptSetKeys1} {
		o := o
		p.Strata = append(p.Strata, mon.Stratum{
			Name: "random/" + o.Name,
			N:    qt(14000, 800000),
			Run: func(c *mon.Ctx, i int) {
				prof := []gen.Profile{gen.PDefault, gen.PTiny, gen.PObjects, gen.PNulls}[i%4]
				var a, b any
				if len(o.Keys) > 0 && i%2 == 0 {
					a, b = keyedMemberPair(c.R, prof, o.Keys)
				} else {
					a, b = PairFor(c.R, o, prof)
				}
				if len(o.Keys) >= 2 && i%3 == 0 {
					// some members lack one of the keys (the same members in a and b); their
					// hunks carry null for the missing key and must match no member that has it
					if a2, b2, ok := dropSomeKeys(c.R.U64(), a, b, o.Keys); ok {
						a, b = a2, b2
						c.Feature("members_lacking_a_key")
					}
				}
				c08Case(c, ref.ToJSON(a), ref.ToJSON(b), o, prof)
			},
		})
	}
	for _, o := range []OptSet{OptSetO, OptMset} {
		o := o
		p.Strata = append(p.Strata, mon.Stratum{
			Name:       "exh-k3n4/" + o.Name,
			N:          n(len(arraysK3N4) * len(arraysK3N4)),
			Exhaustive: always,
			Run: func(c *mon.Ctx, i int) {
				x, y := arraysK3N4[i/len(arraysK3N4)], arraysK3N4[i%len(arraysK3N4)]
				w := i % 2
				c08Case(c, ref.ToJSON(gen.Wrap(x, w)), ref.ToJSON(gen.Wrap(y, w)), o, gen.PTiny)
			},
		})
	}
	for _, o := range []OptSet{OptSetO, OptMset} {
		o := o
		p.Strata = append(p.Strata, mon.Stratum{
			Name: "bulky-members/" + o.Name,
			N:    qt(1200, 15000),
			Run: func(c *mon.Ctx, i int) {
				// members that are long strings differing only in the middle, and members held
				// 3..300 times: identity by a shortened digest or a narrow counter shows here
				r := c.R
				n := []int{1100, 1100, 5000, 70000}[i%4]
				s1, s2 := midDiffPair(n)
				alpha := []any{s1, s2, "x", 1.0, []any{s1}, map[string]any{"k": s2}}
				mk := func() []any {
					var l []any
					for k := r.Range(1, 5); k > 0; k-- {
						l = append(l, gen.Pick(r, alpha))
					}
					return l
				}
				a := mk()
				b, isArr := gen.Mutate(r, gen.PTiny.With(func(p *gen.Profile) { p.Scalars = alpha[:4] }), a).([]any)
				if !isArr {
					b = append(mk(), "y")
				}
				if i%3 == 0 && o.Reading == ref.Multiset {
					// high multiplicities
					hi := []int{3, 7, 255, 256, 257, 300}[(i/3)%6]
					for k := 0; k < hi; k++ {
						a = append(a, "x")
					}
					for k := r.Range(0, hi); k > 0; k-- {
						b = append(b, "x")
					}
					c.Feature("high_multiplicity")
				}
				c.Feature("bulky_member_cases")
				c08Case(c, ref.ToJSON(a), ref.ToJSON(b), o, gen.PTiny)
			},
		})
	}
	p.Strata = append(p.Strata, mon.Stratum{
		Name: "constructed-set-and-multiset-hunks",
		N:    qt(12000, 600000),
		Run: func(c *mon.Ctx, i int) {
			// hunks no single Diff emits (hand-written or squashed): values listed under
			// both - and +, more copies removed than present, additions of members
			// already there; applied to targets over the same small alphabet
			r := c.R
			alpha := []any{1.0, 2.0, 3.0, "x", []any{1.0, 2.0}, []any{2.0, 1.0}, map[string]any{"k": 1.0}, nil}
			bag := i%2 == 1
			reading := ref.Set
			if bag {
				reading = ref.Multiset
			}
			pick := func(n int, distinct bool) []jd.JsonNode {
				var out []jd.JsonNode
				seen := map[string]bool{}
				for k := 0; k < n; k++ {
					v := gen.Pick(r, alpha)
					if distinct {
						cn := ref.Canon(v, ref.Set)
						if seen[cn] {
							continue
						}
						seen[cn] = true
					}
					out = append(out, Node(v))
				}
				return out
			}
			mk := func() jd.Diff {
				rr := gen.New(c.Seed, 0xC08C, uint64(i))
				save := r
				r = rr
				defer func() { r = save }()
				var d jd.Diff
				for k := r.Range(1, 2); k > 0; k-- {
					e := jd.DiffElement{}
					if i%4 >= 2 {
						e.Path = append(e.Path, jd.PathKey("s"))
					}
					if bag {
						e.Path = append(e.Path, jd.PathMultiset{})
					} else {
						e.Path = append(e.Path, jd.PathSet{})
					}
					e.Remove = pick(r.Range(0, 4), !bag)
					e.Add = pick(r.Range(0, 3), !bag)
					if len(e.Remove)+len(e.Add) == 0 {
						e.Add = pick(1, false) // a hunk states at least one value
					}
					d = append(d, e)
				}
				if len(d) == 1 && i%5 == 3 {
					d = append(d, d[0]) // the same hunk twice in a row: each is applied, the second on what the first left
				}
				return d
			}
			var arr []any
			for k := r.Range(0, 6); k > 0; k-- {
				arr = append(arr, gen.Pick(r, alpha))
			}
			if arr == nil {
				arr = []any{}
			}
			var target any = arr
			if r.Chance(0.08) {
				target = gen.Pick(r, []any{"x", 1.0, map[string]any{"k": 1.0}, nil})
			}
			if i%4 >= 2 {
				target = map[string]any{"s": target, "other": []any{1.0, 1.0}}
			}
			tText := ref.ToJSON(target)
			if i%10 == 8 && !bag {
				// a set hunk that removes a value the target does not hold, while it holds the value of
				// ANOTHER kind with the same digest (a number and the 8-byte string with its bit pattern):
				// finding a member by digest is not yet finding the listed element. Only this sub-class is
				// generated; additions of such twins and bag hunks are the Patch face of open finding F8 (C04).
				f := aliasNumbers[(i/10)%len(aliasNumbers)]
				str, _ := aliasString(f)
				var held, listed any = f, str
				if (i/10)%2 == 1 {
					held, listed = str, f
				}
				tText = ref.ToJSON([]any{held, 7.0})
				mk = func() jd.Diff {
					return jd.Diff{{Path: jd.Path{jd.PathSet{}}, Remove: []jd.JsonNode{Node(listed)}}}
				}
				c.Feature("alias_twin_removal")
			}
			c.Input("target", tText)
			d := mk()
			c.Input("diff", ref.HunksString(Hunks(d)))
			overlap := false
			for _, h := range Hunks(d) {
				for _, x := range h.Remove {
					for _, y := range h.Add {
						if ref.Canon(x, reading) == ref.Canon(y, reading) {
							overlap = true
						}
					}
				}
			}
			if overlap {
				c.Feature("constructed_hunk_removes_and_adds_one_value")
			}
			c.Feature("patch_events")
			c.Feature("constructed_hunks")
			c.Event()
			reason, knownID, extra := judgePatch(c, mk(), tText, reading, r.Chance(0.5))
			c.Nontrivial(joinKey("constructed", tText, ref.HunksString(Hunks(d))))
			if reason == "" {
				c.Sample(extra)
				return
			}
			if knownID != "" {
				c.Known(knownID, reason, extra)
				return
			}
			c.Violation(reason, extra)
		},
	})
	mon.Register(p)
}

// dropSomeKeys removes one of the set keys from some array-member objects,
// choosing members by their key tuple so that a and b lose the same keys on
// the same members. It refuses (ok=false) if two members of one array would
// end up with the same partial tuple.
func dropSomeKeys(salt uint64, a, b any, keys []string) (any, any, bool) {
	ok := true
	var walk func(v any) any
	walk = func(v any) any {
		switch t := v.(type) {
		case []any:
			seen := map[string]bool{}
			for i := range t {
				t[i] = walk(t[i])
				o, isObj := t[i].(map[string]any)
				if !isObj {
					continue
				}
				tuple := ""
				for _, k := range keys {
					tuple += ref.Canon(o[k], ref.List) + "|"
				}
				h := gen.New(salt, gen.StrPart(tuple)).U64()
				if h%3 == 0 {
					delete(o, keys[int(h/3)%len(keys)])
				}
				part := ""
				for _, k := range keys {
					if x, has := o[k]; has {
						part += k + "=" + ref.Canon(x, ref.List) + "|"
					}
				}
				if seen[part] {
					ok = false
				}
				seen[part] = true
			}
			return t
		case map[string]any:
			for _, k := range ref.SortedKeys(t) {
				t[k] = walk(t[k])
			}
			return t
		}
		return v
	}
	a2, b2 := walk(ref.Clone(a)), walk(ref.Clone(b))
	return a2, b2, ok
}

// keyedMemberPair builds arrays of keyed objects where members keep their
// identity while non-key fields change (so keyed-member hunks are common).
func keyedMemberPair(r *gen.RNG, prof gen.Profile, keys []string) (any, any) {
	n := r.Range(1, 4)
	arr := make([]any, 0, n+1)
	for i := 0; i < n; i++ {
		m := map[string]any{}
		for f := r.Range(0, 3); f > 0; f-- {
			m[gen.Pick(r, []string{"v", "w", "x"})] = gen.Doc(r, prof.With(func(p *gen.Profile) { p.MaxDepth = 2 }))
		}
		arr = append(arr, m)
	}
	if r.Chance(0.4) {
		arr = append(arr, gen.Scalar(r, prof))
	}
	var a any = arr
	if r.Chance(0.5) {
		a = map[string]any{"list": arr, "n": 1.0}
	}
	a = gen.Keyify(r, a, keys)
	b := ref.Clone(a)
	var walk func(v any) any
	walk = func(v any) any {
		switch t := v.(type) {
		case []any:
			for i := range t {
				t[i] = walk(t[i])
			}
			if r.Chance(0.2) {
				for k := r.Range(1, 3); k > 0; k-- { // one to three new values in one nested array
					t = append(t, gen.Scalar(r, prof))
				}
			}
			if r.Chance(0.15) && len(t) > 0 {
				j := r.Intn(len(t))
				t = append(t[:j], t[j+1:]...)
			}
			return t
		case map[string]any:
			for _, k := range ref.SortedKeys(t) {
				isKey := false
				for _, kk := range keys {
					if kk == k {
						isKey = true
					}
				}
				if isKey {
					continue
				}
				switch r.Intn(5) {
				case 0:
					delete(t, k)
				case 1:
					t[k] = gen.Scalar(r, prof)
				case 2:
					t[k] = walk(t[k])
				}
			}
			if r.Chance(0.3) {
				t[gen.Pick(r, []string{"v", "w", "y"})] = gen.Scalar(r, prof)
			}
			return t
		}
		return v
	}
	b = gen.Keyify(r, walk(b), keys)
	return a, b
}

var _ = fmt.Sprint
