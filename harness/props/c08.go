package props

import (
	"fmt"

	"verifharness/gen"
	"verifharness/mon"
	"verifharness/ref"
)

// lastCollectionPath returns the path prefix of the array a hunk addresses
// (for set / multiset hunks the array itself; for keyed hunks the array
// holding the member).
func addressedArrayPath(h ref.Hunk) ([]ref.PathEl, bool) {
	for i, e := range h.Path {
		if e.Kind == ref.KSet || e.Kind == ref.KMultiset || e.Kind == ref.KSetKeys {
			return h.Path[:i], true
		}
	}
	return nil, false
}

// c08Targets builds hostile targets for a set-mode diff of a.
func c08Targets(c *mon.Ctx, prof gen.Profile, a, b any, hs []ref.Hunk, o OptSet) [][2]string {
	r := c.R
	out := [][2]string{{ref.ToJSON(a), "a"}}
	out = append(out, [2]string{ref.ToJSON(reorder(r, ref.Clone(a), false)), "permutation-of-a"})
	if r.Chance(0.3) {
		out = append(out, [2]string{ref.ToJSON(b), "b"})
	}
	pert := gen.Perturb(r, prof, a)
	if len(o.Keys) > 0 {
		pert = gen.Keyify(r, pert, o.Keys)
	}
	out = append(out, [2]string{ref.ToJSON(pert), "random-perturbation"})
	// targeted at the addressed array of one hunk
	h := hs[r.Intn(len(hs))]
	if pp, ok := addressedArrayPath(h); ok {
		kind := ""
		t, ok := editAt(a, pp, func(v any) any {
			l, isArr := v.([]any)
			if !isArr {
				return v
			}
			switch r.Intn(8) {
			case 0:
				kind = "non-array:scalar"
				return gen.Scalar(r, prof)
			case 1:
				kind = "non-array:object"
				return map[string]any{"x": l}
			case 2:
				kind = "removed-element-absent"
				if len(h.Remove) > 0 {
					var keep []any
					cr := ref.Canon(h.Remove[0], o.Reading)
					for _, e := range l {
						if ref.Canon(e, o.Reading) != cr {
							keep = append(keep, e)
						}
					}
					if keep == nil {
						keep = []any{}
					}
					return keep
				}
			case 3:
				kind = "one-copy-fewer"
				if len(h.Remove) > 0 {
					cr := ref.Canon(h.Remove[0], o.Reading)
					for j, e := range l {
						if ref.Canon(e, o.Reading) == cr {
							return append(append([]any{}, l[:j]...), l[j+1:]...)
						}
					}
				}
			case 4:
				kind = "member-added"
				l = append(l, gen.Scalar(r, prof))
				gen.Shuffle(r, l)
				return l
			case 5:
				kind = "member-duplicated"
				if len(l) > 0 {
					l = append(l, ref.Clone(l[r.Intn(len(l))]))
					gen.Shuffle(r, l)
					return l
				}
			case 7:
				kind = "swapped-key-tuple-decoy"
				if len(o.Keys) >= 2 {
					for _, e := range l {
						m, isObj := e.(map[string]any)
						if !isObj {
							continue
						}
						if _, has := m[o.Keys[0]]; !has {
							continue
						}
						decoy := ref.Clone(m).(map[string]any)
						decoy[o.Keys[0]], decoy[o.Keys[1]] = m[o.Keys[1]], m[o.Keys[0]]
						return append([]any{decoy}, l...) // before the addressed member
					}
				}
			default:
				kind = "keyed-member-nonkey-field-changed"
				var idx []int
				for j, e := range l {
					if _, isObj := e.(map[string]any); isObj {
						idx = append(idx, j)
					}
				}
				if len(idx) > 0 {
					m := l[gen.Pick(r, idx)].(map[string]any)
					var fields []string
					isKey := map[string]bool{}
					for _, k := range o.Keys {
						isKey[k] = true
					}
					for _, k := range ref.SortedKeys(m) {
						if !isKey[k] {
							fields = append(fields, k)
						}
					}
					if len(fields) > 0 {
						f := gen.Pick(r, fields)
						switch r.Intn(3) {
						case 0:
							delete(m, f)
						case 1:
							m[f] = gen.Scalar(r, prof)
						default:
							m[f] = []any{m[f]}
						}
						gen.Shuffle(r, l)
						return l
					}
				}
			}
			kind = "unchanged"
			return l
		})
		if ok && t != nil {
			if kind == "" {
				kind = "unchanged"
			}
			out = append(out, [2]string{ref.ToJSON(t), "addressed:" + kind})
		}
		// remove the addressed array altogether (only possible under a key)
		if len(pp) > 0 && pp[len(pp)-1].Kind == ref.KKey && r.Chance(0.2) {
			if t, ok := editAt(a, pp[:len(pp)-1], func(v any) any {
				if m, isObj := v.(map[string]any); isObj {
					delete(m, pp[len(pp)-1].Key)
				}
				return v
			}); ok {
				out = append(out, [2]string{ref.ToJSON(t), "addressed:array-removed"})
			}
		}
	}
	return out
}

func c08Case(c *mon.Ctx, aText, bText string, o OptSet, prof gen.Profile) {
	c.Input("a", aText)
	c.Input("b", bText)
	c.Input("options", o.Name)
	a, b := ref.MustJSON(aText), ref.MustJSON(bText)
	full := ReadJ(aText).Diff(ReadJ(bText), o.O()...)
	if len(full) == 0 {
		c.Skip("empty diff")
		return
	}
	hs := Hunks(full)
	diffFeatures(c, hs)
	for _, t := range c08Targets(c, prof, a, b, hs, o) {
		c.Feature("target:" + t[1])
		c.Feature("patch_events")
		c.Event()
		viaText := c.R.Chance(0.5)
		reason, knownID, extra := judgePatch(c, ReadJ(aText).Diff(ReadJ(bText), o.O()...), t[0], o.Reading, viaText)
		if t[1] != "a" {
			c.Nontrivial(joinKey(aText, bText, o.Name, t[0]))
		}
		if reason == "" {
			if t[1] != "a" {
				c.Sample(extra)
			}
			continue
		}
		extra["target_kind"] = t[1]
		if knownID != "" {
			c.Known(knownID, reason, extra)
		} else {
			c.Violation(reason, extra)
			return
		}
	}
}

func init() {
	p := &mon.Property{
		ID: "C08",
		Rule: "cases are (a, b) pairs diffed under SET, MULTISET, SetKeys(id), SetKeys(id,k2), SET+SetKeys(id); each diff is applied (in memory or re-read) to a, permutations of a, b, random perturbations, " +
			"and targets built at the addressed array: replaced by a scalar / an object / removed, the removed member absent, one copy fewer (multiset), a member added or duplicated, a keyed member with a non-key field changed; " +
			"every Patch event is compared with the reference set / bag / keyed-member interpreter under the set or multiset reading; non-trivial = target is not a itself; distinct = distinct (a, b, options, target)",
		Floors: map[string]int{"patch_events": 100000, "both_apply": 20000, "both_reject": 10000, "target:permutation-of-a": 10000,
			"target:addressed:non-array:scalar": 500, "target:addressed:removed-element-absent": 300, "target:addressed:one-copy-fewer": 300,
			"target:addressed:keyed-member-nonkey-field-changed": 300, "reject:set remove": 300, "reject:multiset remove": 300, "reject:no member": 100, "hunk_keyed_member": 1000},
		Assumptions: []string{
			"reference semantics: {} hunk = every removed value present under the recursive set reading, added values inserted if absent, others untouched; [] hunk = by multiplicities; {\"k\":v} = the member object whose k fields equal v, rest of the path applied strictly inside it, any failure fails the patch",
			"SetKeys inputs satisfy the stated precondition; key values are scalars; key tuples never permutations of each other (known finding F21 lives in C01)",
			"whole-value key hunks (e.g. @ [\"k\"] - [1,2]) compare under the list reading, as the diff encodes no reading for them",
		},
	}
	for _, o := range []OptSet{OptSetO, OptMset, OptKeys1, OptKeys2, OptSetKeys1} {
		o := o
		p.Strata = append(p.Strata, mon.Stratum{
			Name: "random/" + o.Name,
			N:    qt(14000, 800000),
			Run: func(c *mon.Ctx, i int) {
				prof := []gen.Profile{gen.PDefault, gen.PTiny, gen.PObjects, gen.PNulls}[i%4]
				var a, b any
				if len(o.Keys) > 0 && i%2 == 0 {
					a, b = keyedMemberPair(c.R, prof, o.Keys)
				} else {
					a, b = PairFor(c.R, o, prof)
				}
				c08Case(c, ref.ToJSON(a), ref.ToJSON(b), o, prof)
			},
		})
	}
	for _, o := range []OptSet{OptSetO, OptMset} {
		o := o
		p.Strata = append(p.Strata, mon.Stratum{
			Name:       "exh-k3n4/" + o.Name,
			N:          n(len(arraysK3N4) * len(arraysK3N4)),
			Exhaustive: always,
			Run: func(c *mon.Ctx, i int) {
				x, y := arraysK3N4[i/len(arraysK3N4)], arraysK3N4[i%len(arraysK3N4)]
				w := i % 2
				c08Case(c, ref.ToJSON(gen.Wrap(x, w)), ref.ToJSON(gen.Wrap(y, w)), o, gen.PTiny)
			},
		})
	}
	mon.Register(p)
}

// keyedMemberPair builds arrays of keyed objects where members keep their
// identity while non-key fields change (so keyed-member hunks are common).
func keyedMemberPair(r *gen.RNG, prof gen.Profile, keys []string) (any, any) {
	n := r.Range(1, 4)
	arr := make([]any, 0, n+1)
	for i := 0; i < n; i++ {
		m := map[string]any{}
		for f := r.Range(0, 3); f > 0; f-- {
			m[gen.Pick(r, []string{"v", "w", "x"})] = gen.Doc(r, prof.With(func(p *gen.Profile) { p.MaxDepth = 2 }))
		}
		arr = append(arr, m)
	}
	if r.Chance(0.4) {
		arr = append(arr, gen.Scalar(r, prof))
	}
	var a any = arr
	if r.Chance(0.5) {
		a = map[string]any{"list": arr, "n": 1.0}
	}
	a = gen.Keyify(r, a, keys)
	b := ref.Clone(a)
	var walk func(v any) any
	walk = func(v any) any {
		switch t := v.(type) {
		case []any:
			for i := range t {
				t[i] = walk(t[i])
			}
			if r.Chance(0.2) {
				t = append(t, gen.Scalar(r, prof))
			}
			if r.Chance(0.15) && len(t) > 0 {
				j := r.Intn(len(t))
				t = append(t[:j], t[j+1:]...)
			}
			return t
		case map[string]any:
			for _, k := range ref.SortedKeys(t) {
				isKey := false
				for _, kk := range keys {
					if kk == k {
						isKey = true
					}
				}
				if isKey {
					continue
				}
				switch r.Intn(5) {
				case 0:
					delete(t, k)
				case 1:
					t[k] = gen.Scalar(r, prof)
				case 2:
					t[k] = walk(t[k])
				}
			}
			if r.Chance(0.3) {
				t[gen.Pick(r, []string{"v", "w", "y"})] = gen.Scalar(r, prof)
			}
			return t
		}
		return v
	}
	b = gen.Keyify(r, walk(b), keys)
	return a, b
}

var _ = fmt.Sprint
