package props

import (
	"fmt"
	"os"
	"path/filepath"
	"strings"

	jd "github.com/josephburnett/jd/v2"

	"verifharness/gen"
	"verifharness/mon"
	"verifharness/ref"
)

// hostile strings: used both as values and as keys.
var yamlStrings = []string{
	"true", "false", "True", "TRUE", "yes", "no", "Yes", "NO", "on", "off", "On", "OFF", "y", "n", "Y", "N", "null", "Null", "NULL", "~", "",
	"1", "0", "-1", "+1", "1e3", "1E3", "1.5", ".5", "5.", "0x1F", "0o17", "017", "0b101", "1_000", "190:20:30", "1:30", ".inf", "-.inf", ".Inf", ".nan", ".NaN", "1e400", "0.1e-3",
	"2001-12-14", "2001-12-14t21:59:43.10-05:00", "2001-12-14 21:59:43", "12:30:45",
	"- x", "-", "- ", "a: b", "a:", ":", ": a", "a :b", "#", "# c", "a #c", "a#c", "&a", "*a", "!t", "!!str x", "|", ">", "|-", ">+", "%", "%YAML", "@", "`", "<<", "=", "?", "? a", "[", "]", "{", "}", "[a]", "{a: b}", ",", "a, b",
	"'", "''", "\"", "\\", "a'b", "a\"b", "a\\b", "\\n", " ", "  ", " a", "a ", " a ", "\t", "a\tb", "\ta", "\n", "a\nb", "a\n", "\na", "a\n\nb", "a\r\nb", "\r", "a\n  b", "  a\nb",
	"\u0085", "a\u0085b", "\u2028", "\u2029", "\uFEFF", "\uFEFFa", "\u0000", "a\u0000b", "\u0001", "\u001b[0m", "\u007f", "\u00a0", "é", "日本語", "\U0001F600", "a\U0001F600b", "\u00e9\n\u00e9",
	",]", ", }", "x{2,}", "[1,]", "a,]", "{\"a\":1,}", "---", "...", "--- a", "key: [1, 2]", "x: |\n  y", "multi\nline\ntext\n", "trailing colon:", "question? mark", "- - a", "a: - b", "<<: *a", "!!binary aGk=", "0.0", "-0", "00", "1e", "e1", "0x", "++1", "1.2.3", "1,000", "١٢٣",
	"<<: *b\nx: 1", "- <<: x\n- y", "a:\n  <<: *base\n  k: v\n", "? q\n: r\n", "&a x\n*a\n", "!!str 1\n!!int 2", "--- a\n... b\n", "# c\n# d\n",
	"rate: 1e+06\nburst: 5", "- 2.5e+07\n- x", "5 - 1e+06", "n: 1e+06", "a: 0x10\nb: 010", "x: true\ny: null\n", "all:\n\techo hi\n", "\tindented by a tab\nnext", "key: |\n  nested block",
	"..", ".", "--", ".-", "-.", "....", "-.-", ".. ..", "--.", "-- -", "_", "__", "~~", "=", "==", "::", "//", "\\\\", "##",
}

var yamlNumbers = []float64{0, 1, -1, 2147483647, 2147483648, -2147483649, 9007199254740991, 9007199254740992, 9007199254740993, 9223372036854775807, 9223372036854775808, 18446744073709551615, 18446744073709551616,
	1e21, -1e21, 1e-7, 0.1, -0.5, 1.5, 3.141592653589793, 1e300, 5e-324, 123456789012, 100, 1e15, 1e16, 12345.678}

// integer literals written out in full (the same text is valid JSON and YAML)
var yamlIntTexts = []string{"0", "7", "-7", "2147483648", "4294967296", "9007199254740993", "9223372036854775807", "9223372036854775808", "-9223372036854775808", "-9223372036854775809",
	"18446744073709551615", "18446744073709551616", "99999999999999999999999999", "1e3", "1E3", "1e+3", "1.0e3", "1e-2", "12.5e1", "0.5", "-0.5", "100000000000000000000"}

// hasMergeKey is the classifier of F16: some object has the key "<<".
func hasMergeKey(v any) bool {
	switch t := v.(type) {
	case []any:
		for _, e := range t {
			if hasMergeKey(e) {
				return true
			}
		}
	case map[string]any:
		for k, e := range t {
			if k == "<<" || hasMergeKey(e) {
				return true
			}
		}
	}
	return false
}

// yamlEquivalents: hand-written YAML texts and the JSON text of the same document.
var yamlEquivalents = [][2]string{
	{"a: |\n  x\n", `{"a":"x\n"}`}, {"a: |\n  x", `{"a":"x"}`}, {"a: |-\n  x\n", `{"a":"x"}`}, {"a: |-\n  x", `{"a":"x"}`}, {"a: |+\n  x\n\n", `{"a":"x\n\n"}`}, {"a: |+\n  x", `{"a":"x"}`},
	{"a: >\n  x\n  y\n", `{"a":"x y\n"}`}, {"a: >\n  x\n  y", `{"a":"x y"}`}, {"a: >-\n  x\n  y\n", `{"a":"x y"}`}, {"- |\n  x\n- z\n", `["x\n","z"]`}, {"- |\n  x", `["x"]`},
	{"a: |\n  l1\n  l2\nb: 1\n", `{"a":"l1\nl2\n","b":1}`}, {"a: |2\n   x\n", `{"a":" x\n"}`}, {"a: \"x\"", `{"a":"x"}`}, {"a: 'x'", `{"a":"x"}`}, {"a: x", `{"a":"x"}`}, {"a: x # c", `{"a":"x"}`},
	{"# c\na: 1", `{"a":1}`}, {"---\na: 1", `{"a":1}`}, {"a: 1\n...", `{"a":1}`}, {"a: [1, 2]", `{"a":[1,2]}`}, {"a:\n- 1\n- 2", `{"a":[1,2]}`}, {"a:\n  - 1\n  - 2", `{"a":[1,2]}`}, {"{a: 1, b: [x, z]}", `{"a":1,"b":["x","z"]}`},
	{"a: {}\nb: []", `{"a":{},"b":[]}`}, {"a:", `{"a":null}`}, {"a: ~", `{"a":null}`}, {"- a\n- - b\n  - c", `["a",["b","c"]]`}, {"a: \"l1\\nl2\"", `{"a":"l1\nl2"}`}, {"a: 'it''s'", `{"a":"it's"}`},
	{"? a\n: 1", `{"a":1}`}, {"a:   1   ", `{"a":1}`}, {"\"a b\": 1", `{"a b":1}`}, {"a: 1.0", `{"a":1}`}, {"a: 1e3", `{"a":1000}`}, {"a: -0.5", `{"a":-0.5}`}, {"x", `"x"`}, {"1", `1`}, {"[]", `[]`}, {"- 1", `[1]`},
}

func c16Doc(r *gen.RNG, i int) any {
	prof := gen.PDefault.With(func(p *gen.Profile) {
		p.MaxDepth = 3
		sc := []any{nil, true, false}
		for k := 0; k < 8; k++ {
			sc = append(sc, gen.Pick(r, yamlStrings))
		}
		for k := 0; k < 4; k++ {
			sc = append(sc, gen.Pick(r, yamlNumbers))
		}
		p.Scalars = sc
		keys := []string{"a", "b"}
		for k := 0; k < 4; k++ {
			keys = append(keys, gen.Pick(r, yamlStrings))
		}
		p.Keys = keys
	})
	switch i % 6 {
	case 0:
		return gen.Pick(r, yamlStrings) // root scalar string
	case 1:
		s := gen.Pick(r, yamlStrings)
		return map[string]any{s: s, "list": []any{s, []any{s}, map[string]any{s: []any{}}}, "e": map[string]any{}}
	default:
		return gen.Doc(r, prof)
	}
}

func c16Carrier(c *mon.Ctx, v any) {
	j := ref.ToJSON(v)
	c.Input("json", j)
	N := ReadJ(j)
	if !ref.Eq(Plain(N), v, ref.List) {
		c.Violation("ReadJsonString changed the document", nil)
		return
	}
	c.Nontrivial(j)
	if c.Index%5 == 0 && c.WorkDir != "" {
		// the file entry points read exactly what the string entry points read
		jf, yf := filepath.Join(c.WorkDir, "doc.json"), filepath.Join(c.WorkDir, "doc.yaml")
		y0 := ref.YamlEmit(v, ref.YBlockDouble)
		if os.WriteFile(jf, []byte(j), 0o644) == nil && os.WriteFile(yf, []byte(y0), 0o644) == nil {
			NF, e1 := jd.ReadJsonFile(jf)
			YF, e2 := jd.ReadYamlFile(yf)
			c.Feature("file_readers_compared")
			if e1 != nil || e2 != nil || !ref.Eq(Plain(NF), v, ref.List) || !ref.Eq(Plain(YF), v, ref.List) {
				c.Violation("ReadJsonFile / ReadYamlFile read a document differently from ReadJsonString / ReadYamlString", map[string]any{"err_json": fmt.Sprint(e1), "err_yaml": fmt.Sprint(e2)})
				return
			}
		}
	}
	// (i) the same document in YAML, written by the independent emitter
	for _, st := range []ref.YamlStyle{ref.YBlockDouble, ref.YBlockSingle, ref.YFlowDouble, ref.YBlockPlain, ref.YBlockLiteral} {
		y := ref.YamlEmit(v, st)
		if st == ref.YBlockLiteral {
			if !strings.Contains(y, ": |2") && !strings.Contains(y, "- |2") {
				continue // nothing in this document is written as a block scalar
			}
			c.Feature("literal_block_scalars_read")
		}
		c.Event()
		c.Feature("emitter_style:" + st.String())
		extra := map[string]any{"yaml": y, "style": st.String()}
		Y, err := jd.ReadYamlString(y)
		if err != nil {
			c.Violation("ReadYamlString rejects the YAML form of a JSON document: "+err.Error(), extra)
			return
		}
		var got any
		if pan := mon.Safe(func() { got = Plain(Y) }); pan != "" {
			extra["panic"] = pan
			c.Violation("the document read from YAML cannot be rendered", extra)
			return
		}
		extra["yaml_read_as"] = ref.ToJSON(got)
		if !ref.Eq(got, v, ref.List) {
			c.Violation("the document read from YAML differs from the same document read from JSON", extra)
			return
		}
		if !Y.Equals(ReadJ(j)) || !ReadJ(j).Equals(Y) {
			c.Violation("jd's Equals says the YAML-read and JSON-read documents differ", extra)
			return
		}
		if len(Y.Diff(ReadJ(j))) != 0 {
			c.Violation("the diff between the YAML-read and JSON-read document is not empty", extra)
			return
		}
	}
	// (ii) jd's own renderings read back
	var yOut, jOut string
	if pan := mon.Safe(func() { yOut, jOut = ReadJ(j).Yaml(), ReadJ(j).Json() }); pan != "" {
		c.Violation("rendering panicked", map[string]any{"panic": pan})
		return
	}
	back, err := jd.ReadJsonString(jOut)
	if err != nil || !ref.Eq(Plain(back), v, ref.List) {
		c.Violation("Json() read back with ReadJsonString is not the same document", map[string]any{"rendered": jOut})
		return
	}
	c.Feature("json_roundtrip_ok")
	extra := map[string]any{"jd_yaml": yOut}
	yb, err := jd.ReadYamlString(yOut)
	reason := ""
	if err != nil {
		reason = "Yaml() output is rejected by ReadYamlString: " + err.Error()
	} else if got := Plain(yb); !ref.Eq(got, v, ref.List) {
		extra["read_back_as"] = ref.ToJSON(got)
		reason = "Yaml() read back with ReadYamlString is not the same document"
	}
	if reason != "" {
		if hasMergeKey(v) {
			c.Known("F16", reason, extra)
			return
		}
		c.Violation(reason, extra)
		return
	}
	c.Feature("yaml_roundtrip_ok")
	c.Sample(extra)
}

func init() {
	p := &mon.Property{
		ID: "C16",
		Rule: "documents over a table of ~190 hostile strings (every YAML 1.1 spelling of booleans/null, number-like, dates, indicator characters, quotes, whitespace, control characters, NEL/LS/PS/BOM, multi-line, non-ASCII, non-BMP) used as values AND keys, integral and fractional numbers incl. 2^31, 2^53+-1, 2^63, 2^64, empty containers everywhere; " +
			"each document is written as YAML by an independent emitter in four styles and must read equal to its JSON form (reference canon, jd Equals both ways, empty diff); jd's Yaml()/Json() output must read back equal; CLI translations and -yaml diff/patch must preserve content; " +
			"non-trivial = every document; distinct = distinct JSON texts",
		Floors: map[string]int{"yaml_roundtrip_ok": 15000, "json_roundtrip_ok": 15000, "emitter_style:block/plain-when-safe": 15000, "hostile_string_as_key": 5000, "cli_translations": 300, "cli_yaml_diff_patch": 100, "cli_carriers_under_loose_flags": 100, "literal_block_scalars_read": 300, "hand_written_yaml_documents": 30, "integer_literals": 20},
		Assumptions: []string{
			"JSON documents with string keys only; YAML features with no JSON counterpart (tags, non-string keys, anchors) are outside the property",
			"the YAML side of (i) comes from the harness's own emitter (ref.YamlEmit), never from yaml.v2's writer; reading JSON text through the YAML reader is not part of the property",
		},
		NeedsCLI: true,
	}
	p.Strata = append(p.Strata, mon.Stratum{
		Name:       "string-table",
		N:          n(len(yamlStrings) * 4),
		Exhaustive: always,
		Run: func(c *mon.Ctx, i int) {
			s := yamlStrings[i/4]
			var v any
			switch i % 4 {
			case 0:
				v = s
			case 1:
				v = []any{s, s}
			case 2:
				v = map[string]any{s: s}
				c.Feature("hostile_string_as_key")
			default:
				v = map[string]any{"k": []any{map[string]any{s: []any{s}}}}
				c.Feature("hostile_string_as_key")
			}
			c16Carrier(c, v)
		},
	})
	p.Strata = append(p.Strata, mon.Stratum{
		Name:       "number-table",
		N:          n(len(yamlNumbers) * 3),
		Exhaustive: always,
		Run: func(c *mon.Ctx, i int) {
			f := yamlNumbers[i/3]
			switch i % 3 {
			case 0:
				c16Carrier(c, f)
			case 1:
				if f == 0 {
					c16Carrier(c, []any{f, 1.0})
				} else {
					c16Carrier(c, []any{f, -f})
				}
			default:
				c16Carrier(c, map[string]any{"n": f})
			}
		},
	})
	p.Strata = append(p.Strata, mon.Stratum{
		Name:       "integer-literals",
		N:          n(len(yamlIntTexts) * 2),
		Exhaustive: always,
		Run: func(c *mon.Ctx, i int) {
			t := yamlIntTexts[i/2]
			jText, yText := t, t+"\n"
			if i%2 == 1 {
				jText, yText = `{"k":[`+t+`]}`, "k:\n  - "+t+"\n"
			}
			c.Input("json", jText)
			c.Input("yaml", yText)
			c.Feature("integer_literals")
			c.Nontrivial(jText)
			J, err := jd.ReadJsonString(jText)
			if err != nil {
				c.Skip("not valid JSON")
				return
			}
			Y, err := jd.ReadYamlString(yText)
			if err != nil {
				c.Violation("the same number literal is accepted as JSON but rejected as YAML: "+err.Error(), nil)
				return
			}
			if !ref.Eq(Plain(Y), Plain(J), ref.List) || !Y.Equals(J) {
				c.Violation("the same number literal reads differently from YAML and from JSON", map[string]any{"from_json": J.Json(), "from_yaml": Y.Json()})
			}
		},
	})
	p.Strata = append(p.Strata, mon.Stratum{
		Name: "random-hostile-documents",
		N:    qt(20000, 2500000),
		Run: func(c *mon.Ctx, i int) {
			v := c16Doc(c.R, i)
			if i%6 >= 2 {
				c.Feature("hostile_string_as_key")
			}
			c16Carrier(c, v)
		},
	})
	p.Strata = append(p.Strata, mon.Stratum{
		Name:       "hand-written-yaml",
		N:          n(len(yamlEquivalents)),
		Exhaustive: always,
		Run: func(c *mon.Ctx, i int) {
			// YAML as people and other tools write it (block scalars with each chomping indicator, with and
			// without a final line break, flow and block collections, comments, document markers) next to the
			// JSON text of the same document
			e := yamlEquivalents[i]
			c.Input("yaml", e[0])
			c.Input("json", e[1])
			c.Feature("hand_written_yaml_documents")
			c.Nontrivial("hw" + e[0])
			Y, err := jd.ReadYamlString(e[0])
			if err != nil {
				c.Violation("ReadYamlString rejects a plain YAML document: "+err.Error(), nil)
				return
			}
			if got, want := Plain(Y), ref.MustJSON(e[1]); !ref.Eq(got, want, ref.List) || !Y.Equals(ReadJ(e[1])) {
				c.Violation("the document read from YAML differs from the same document read from JSON", map[string]any{"yaml_read_as": ref.ToJSON(got)})
			}
		},
	})
	p.Strata = append(p.Strata, mon.Stratum{
		Name: "cli-translate-and-yaml-mode",
		CLI:  true,
		N:    qt(250, 40000),
		Run: func(c *mon.Ctx, i int) {
			a := c16Doc(c.R, i)
			aj := ref.ToJSON(a)
			c.Input("json", aj)
			c.Nontrivial("cli" + aj)
			for _, bin := range []Binary{BinV2, BinTop} {
				r1 := RunCLI(c, bin, []string{"-t", "json2yaml", "a.json"}, "", map[string]string{"a.json": aj})
				if r1.Status != 0 {
					c.Violation(bin.Name+" -t json2yaml failed", map[string]any{"stderr": r1.Stderr})
					return
				}
				r2 := RunCLI(c, bin, []string{"-t", "yaml2json", "a.yaml"}, "", map[string]string{"a.yaml": r1.Stdout})
				c.Feature("cli_translations")
				ok := r2.Status == 0
				var back any
				if ok {
					var err error
					back, err = ref.FromJSON(r2.Stdout)
					ok = err == nil && ref.Eq(back, a, ref.List)
				}
				if !ok {
					reason := bin.Name + ": json2yaml then yaml2json is not the identity on content"
					extra := map[string]any{"yaml": r1.Stdout, "json_back": r2.Stdout, "stderr": r2.Stderr}
					if hasMergeKey(a) {
						c.Known("F16", reason, extra)
						continue
					}
					c.Violation(reason, extra)
					return
				}
			}
			if i%2 == 0 {
				// -yaml diff and patch: inputs written by the independent emitter
				b := gen.Mutate(c.R, gen.PDefault, a)
				if ref.IsVoid(a) || hasMergeKey(b) || hasMergeKey(a) {
					return
				}
				ay, by := ref.YamlEmit(a, ref.YBlockDouble), ref.YamlEmit(b, ref.YBlockSingle)
				want := ReadJ(aj).Diff(ReadJ(ref.ToJSON(b))).Render()
				r := RunCLI(c, BinV2, []string{"-yaml", "a.yaml", "b.yaml"}, "", map[string]string{"a.yaml": ay, "b.yaml": by})
				c.Feature("cli_yaml_diff_patch")
				if r.Stdout != want {
					c.Violation("jd -yaml prints a different diff than the library gives for the JSON-read documents", map[string]any{"a.yaml": ay, "b.yaml": by, "stdout": r.Stdout, "library": want})
					return
				}
				rp := RunCLI(c, BinV2, []string{"-yaml", "-p", "p.diff", "a.yaml"}, "", map[string]string{"p.diff": r.Stdout})
				Y, err := jd.ReadYamlString(rp.Stdout)
				if rp.Status != 0 || err != nil || !ref.Eq(Plain(Y), b, ref.List) {
					c.Violation("jd -yaml -p does not reproduce b", map[string]any{"a.yaml": ay, "diff": r.Stdout, "stdout": rp.Stdout, "stderr": rp.Stderr, "b": ref.ToJSON(b)})
					return
				}
				// the two carriers under flags that loosen equality: a patch whose effect those flags cannot
				// see (members moved, numbers moved within the tolerance) is still applied, on both carriers alike
				type loose struct {
					flags []string
					b2    any
				}
				var ls []loose
				if re := reorder(c.R, ref.Clone(a), false); !ref.Eq(re, a, ref.List) {
					ls = append(ls, loose{[]string{"-mset"}, re}, loose{[]string{"-set"}, re})
				}
				if jt := jitterNumbers(c.R, a, 0.1); !ref.Eq(jt, a, ref.List) {
					ls = append(ls, loose{[]string{"-precision", "0.1"}, jt})
				}
				for _, l := range ls {
					p := ReadJ(aj).Diff(ReadJ(ref.ToJSON(l.b2))).Render()
					for _, bin := range []Binary{BinV2, BinTop} {
						rj := RunCLI(c, bin, append(append([]string{}, l.flags...), "-p", "p.diff", "a.json"), "", map[string]string{"p.diff": p, "a.json": aj})
						ry := RunCLI(c, bin, append(append([]string{}, l.flags...), "-yaml", "-p", "p.diff", "a.yaml"), "", map[string]string{"p.diff": p, "a.yaml": ay})
						c.Feature("cli_carriers_under_loose_flags")
						vj, e1 := ref.FromJSON(rj.Stdout)
						var vy any
						Y, e2 := jd.ReadYamlString(ry.Stdout)
						if e2 == nil {
							vy = Plain(Y)
						}
						if rj.Status != ry.Status || (rj.Status == 0 && (e1 != nil || e2 != nil || !ref.Eq(vj, vy, ref.List))) {
							c.Violation(bin.Name+" "+strings.Join(l.flags, " ")+" -p: the YAML carrier and the JSON carrier give different documents for the same patch",
								map[string]any{"diff": p, "json_carrier": rj.Stdout, "yaml_carrier": ry.Stdout, "stderr_json": rj.Stderr, "stderr_yaml": ry.Stderr})
							return
						}
					}
				}
			}
		},
	})
	mon.Register(p)
}

var _ = fmt.Sprint
var _ = strings.Join
