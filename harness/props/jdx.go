// Package props holds one monitor per property. jdx.go bridges between jd
// values (always obtained through jd's own readers) and the plain values
// the reference models work on.
package props

import (
	"fmt"
	"reflect"
	"strings"

	jd "github.com/josephburnett/jd/v2"

	"verifharness/gen"
	"verifharness/mon"
	"verifharness/ref"
)

// ReadJ reads JSON text with jd's reader; generator output is always valid.
func ReadJ(s string) jd.JsonNode {
	n, err := jd.ReadJsonString(s)
	if err != nil {
		panic(fmt.Sprintf("harness bug: generated JSON rejected by jd: %q: %v", s, err))
	}
	return n
}

// Node builds a fresh jd value from a plain value.
func Node(v any) jd.JsonNode { return ReadJ(ref.ToJSON(v)) }

// Plain extracts the plain value of a jd node through its JSON rendering.
func Plain(n jd.JsonNode) any {
	s := n.Json()
	v, err := ref.FromJSON(s)
	if err != nil {
		panic(fmt.Sprintf("jd rendered invalid JSON %q: %v", s, err))
	}
	return v
}

func plainAll(ns []jd.JsonNode) []any {
	if len(ns) == 0 {
		return nil
	}
	out := make([]any, len(ns))
	for i, n := range ns {
		out[i] = Plain(n)
	}
	return out
}

func plainKeys(m map[string]jd.JsonNode) map[string]any {
	out := map[string]any{}
	for k, v := range m {
		out[k] = Plain(v)
	}
	return out
}

// Hunks mirrors a jd Diff from its public fields only.
func Hunks(d jd.Diff) []ref.Hunk {
	hs := make([]ref.Hunk, len(d))
	for i, e := range d {
		h := ref.Hunk{Merge: e.Metadata.Merge}
		for _, pe := range e.Path {
			switch t := pe.(type) {
			case jd.PathKey:
				h.Path = append(h.Path, ref.PathEl{Kind: ref.KKey, Key: string(t)})
			case jd.PathIndex:
				h.Path = append(h.Path, ref.PathEl{Kind: ref.KIndex, Index: int(t)})
			case jd.PathSet:
				h.Path = append(h.Path, ref.PathEl{Kind: ref.KSet})
			case jd.PathMultiset:
				h.Path = append(h.Path, ref.PathEl{Kind: ref.KMultiset})
			case jd.PathSetKeys:
				h.Path = append(h.Path, ref.PathEl{Kind: ref.KSetKeys, Keys: plainKeys(t)})
			case jd.PathMultisetKeys:
				h.Path = append(h.Path, ref.PathEl{Kind: ref.KMultisetKeys, Keys: plainKeys(t)})
			default:
				panic(fmt.Sprintf("unknown path element %T", pe))
			}
		}
		h.Before = plainAll(e.Before)
		h.Remove = plainAll(e.Remove)
		h.Add = plainAll(e.Add)
		h.After = plainAll(e.After)
		hs[i] = h
	}
	return hs
}

// OptSet is a configuration of Diff/Equals options with the reading of
// arrays the reference models use for it.
type OptSet struct {
	Name    string
	Opts    func() []jd.Option
	Reading ref.Reading
	Merge   bool
	Keys    []string
	Eps     float64
	HasEps  bool
}

func (o OptSet) O() []jd.Option { return o.Opts() }

var (
	OptNone     = OptSet{Name: "list", Opts: func() []jd.Option { return nil }, Reading: ref.List}
	OptSetO     = OptSet{Name: "SET", Opts: func() []jd.Option { return []jd.Option{jd.SET} }, Reading: ref.Set}
	OptMset     = OptSet{Name: "MULTISET", Opts: func() []jd.Option { return []jd.Option{jd.MULTISET} }, Reading: ref.Multiset}
	OptKeys1    = OptSet{Name: "SetKeys(id)", Opts: func() []jd.Option { return []jd.Option{jd.SetKeys("id")} }, Reading: ref.Set, Keys: []string{"id"}}
	OptKeys2    = OptSet{Name: "SetKeys(id,k2)", Opts: func() []jd.Option { return []jd.Option{jd.SetKeys("id", "k2")} }, Reading: ref.Set, Keys: []string{"id", "k2"}}
	OptSetKeys1 = OptSet{Name: "SET+SetKeys(id)", Opts: func() []jd.Option { return []jd.Option{jd.SET, jd.SetKeys("id")} }, Reading: ref.Set, Keys: []string{"id"}}
	OptMerge    = OptSet{Name: "MERGE", Opts: func() []jd.Option { return []jd.Option{jd.MERGE} }, Reading: ref.List, Merge: true}
	OptSetMerge = OptSet{Name: "SET+MERGE", Opts: func() []jd.Option { return []jd.Option{jd.SET, jd.MERGE} }, Reading: ref.Set, Merge: true}
	OptMsMerge  = OptSet{Name: "MULTISET+MERGE", Opts: func() []jd.Option { return []jd.Option{jd.MULTISET, jd.MERGE} }, Reading: ref.Multiset, Merge: true}
)

func OptPrecision(eps float64) OptSet {
	return OptSet{Name: fmt.Sprintf("Precision(%g)", eps), Opts: func() []jd.Option { return []jd.Option{jd.Precision(eps)} }, Reading: ref.List, Eps: eps, HasEps: true}
}

var OptKeysMerge = OptSet{Name: "SetKeys(id)+MERGE", Opts: func() []jd.Option { return []jd.Option{jd.SetKeys("id"), jd.MERGE} }, Reading: ref.Set, Merge: true, Keys: []string{"id"}}

var AllDiffOpts = []OptSet{OptNone, OptSetO, OptMset, OptKeys1, OptKeys2, OptSetKeys1, OptMerge, OptSetMerge, OptMsMerge}

// PairFor generates a document pair satisfying the option set's stated
// preconditions (null-free for merge, keyed members for SetKeys).
func PairFor(r *gen.RNG, o OptSet, p gen.Profile) (any, any) {
	if o.Merge {
		p.Scalars = withoutNull(p.Scalars)
	}
	if len(o.Keys) > 0 {
		return gen.KeyedPair(r, p, o.Keys)
	}
	return gen.Pair(r, p)
}

func withoutNull(s []any) []any {
	var out []any
	for _, v := range s {
		if v != nil {
			out = append(out, v)
		}
	}
	return out
}

// sharedContainer walks values (jd nodes, diffs, slices of them) by
// reflection and reports the first map or non-empty slice that is reached at
// two different places: storage shared between two positions means that an
// in-place edit of one of them changes the other.
func sharedContainer(roots ...any) string {
	seen := map[uintptr]string{}
	var walk func(v reflect.Value, where string) string
	walk = func(v reflect.Value, where string) string {
		for v.Kind() == reflect.Interface || v.Kind() == reflect.Ptr {
			if v.IsNil() {
				return ""
			}
			v = v.Elem()
		}
		switch v.Kind() {
		case reflect.Map:
			if v.IsNil() {
				return ""
			}
			p := v.Pointer()
			if at, dup := seen[p]; dup {
				return "one object is held at " + at + " and at " + where
			}
			seen[p] = where
			it := v.MapRange()
			for it.Next() {
				if m := walk(it.Value(), where+"."+fmt.Sprint(it.Key().Interface())); m != "" {
					return m
				}
			}
		case reflect.Slice:
			if v.Len() == 0 {
				return ""
			}
			if v.Type().Elem().Kind() == reflect.Uint8 {
				return "" // strings of bytes (jsonNull) carry no nodes
			}
			p := v.Pointer()
			if at, dup := seen[p]; dup {
				return "one array is held at " + at + " and at " + where
			}
			seen[p] = where
			for i := 0; i < v.Len(); i++ {
				if m := walk(v.Index(i), fmt.Sprintf("%s[%d]", where, i)); m != "" {
					return m
				}
			}
		case reflect.Struct:
			for i := 0; i < v.NumField(); i++ {
				if v.Type().Field(i).IsExported() {
					if m := walk(v.Field(i), where+"."+v.Type().Field(i).Name); m != "" {
						return m
					}
				}
			}
		}
		return ""
	}
	for i, r := range roots {
		if m := walk(reflect.ValueOf(r), fmt.Sprintf("#%d", i)); m != "" {
			return m
		}
	}
	return ""
}

// Dump is a type-accurate deep dump of jd values (concrete dynamic types,
// sorted map keys), used as a purity fingerprint.
func Dump(v any) string { return fmt.Sprintf("%#v", v) }

func n(k int) func(mon.Tier) int { return func(mon.Tier) int { return k } }

// qt picks a count by tier.
func qt(q, t int) func(mon.Tier) int {
	return func(tier mon.Tier) int {
		if tier == mon.Thorough {
			return t
		}
		return q
	}
}

func always(mon.Tier) bool { return true }

func diffFeatures(c *mon.Ctx, hs []ref.Hunk) {
	if len(hs) == 0 {
		c.Feature("diff_empty")
		return
	}
	c.Feature("diff_nonempty")
	if len(hs) >= 2 {
		c.Feature("hunks>=2")
	}
	idxPaths := map[string]int{}
	for _, h := range hs {
		if len(h.Path) == 0 {
			c.Feature("hunk_root")
			continue
		}
		last := h.Path[len(h.Path)-1]
		switch last.Kind {
		case ref.KIndex:
			c.Feature("hunk_list")
			parent := ref.Hunk{Path: h.Path[:len(h.Path)-1]}.PathString()
			idxPaths[parent]++
			if len(h.Remove) > 1 || len(h.Add) > 1 {
				c.Feature("hunk_list_multi")
			}
		case ref.KSet:
			c.Feature("hunk_set")
			if len(h.Remove)+len(h.Add) >= 2 {
				c.Feature("hunk_set_multi")
			}
		case ref.KMultiset:
			c.Feature("hunk_multiset")
		case ref.KKey:
			c.Feature("hunk_key")
		}
		depthIdx, keyed := 0, false
		for _, e := range h.Path {
			if e.Kind == ref.KIndex {
				depthIdx++
			}
			if e.Kind == ref.KSetKeys {
				keyed = true
			}
		}
		if keyed {
			c.Feature("hunk_keyed_member")
		}
		if depthIdx >= 2 {
			c.Feature("hunk_nested_arrays")
		}
		if len(h.Path) >= 3 {
			c.Feature("hunk_depth>=3")
		}
		if h.Merge {
			c.Feature("hunk_merge")
			if len(h.Add) == 1 && ref.IsVoid(h.Add[0]) {
				c.Feature("hunk_merge_delete")
			}
		}
	}
	for _, k := range idxPaths {
		if k >= 2 {
			c.Feature("index_shift(>=2 hunks in one array)")
			break
		}
	}
}

func joinKey(parts ...string) string { return strings.Join(parts, "\x00") }
