package props

import (
	"encoding/binary"
	jd "github.com/josephburnett/jd/v2"
	"math"
	"strings"
	"sync"
	"unicode/utf8"

	"verifharness/gen"
	"verifharness/ref"
)

// eqPair generates a pair for the equality properties (C04, C05) together
// with a class label. Classes: equal-by-construction under the reading
// (permutations / duplications / re-nesting), near misses (one leaf changed
// at depth), mutations, independent documents.
func eqPair(r *gen.RNG, o OptSet, p gen.Profile) (a, b any, class string) {
	if len(o.Keys) > 0 {
		a = gen.KeyedDoc(r, p, o.Keys)
	} else {
		a = gen.Doc(r, p)
	}
	switch x := r.Intn(10); {
	case x < 3:
		b = ref.Clone(a)
		class = "identical"
		if o.Reading != ref.List {
			b = reorder(r, b, o.Reading == ref.Set)
			class = "equal-but-reordered"
		}
	case x < 6:
		b = nearMiss(r, p, ref.Clone(a))
		if o.Reading != ref.List && r.Chance(0.5) {
			b = reorder(r, b, o.Reading == ref.Set)
		}
		class = "near-miss"
	case x < 9:
		b = gen.Mutate(r, p, a)
		class = "mutated"
	default:
		b = gen.Doc(r, p)
		class = "independent"
	}
	if len(o.Keys) > 0 {
		b = gen.Keyify(r, b, o.Keys)
	}
	return
}

// reorder shuffles every array (recursively) and, for sets, sometimes
// duplicates a member: the result is equal under the reading.
func reorder(r *gen.RNG, v any, dup bool) any {
	switch t := v.(type) {
	case []any:
		for i := range t {
			t[i] = reorder(r, t[i], dup)
		}
		if dup && len(t) > 0 && r.Chance(0.3) {
			t = append(t, reorder(r, ref.Clone(t[r.Intn(len(t))]), dup))
		}
		gen.Shuffle(r, t)
		return t
	case map[string]any:
		for k := range t {
			t[k] = reorder(r, t[k], dup)
		}
	}
	return v
}

// nearMiss changes exactly one node somewhere in v.
func nearMiss(r *gen.RNG, p gen.Profile, v any) any {
	n := 0
	var count func(v any)
	count = func(v any) {
		n++
		switch t := v.(type) {
		case []any:
			for _, e := range t {
				count(e)
			}
		case map[string]any:
			for _, e := range t {
				count(e)
			}
		}
	}
	count(v)
	target, idx := r.Intn(n), 0
	var walk func(v any) any
	walk = func(v any) any {
		me := idx
		idx++
		if me == target {
			return changeNode(r, p, v)
		}
		switch t := v.(type) {
		case []any:
			for i := range t {
				t[i] = walk(t[i])
			}
		case map[string]any:
			for _, k := range ref.SortedKeys(t) {
				t[k] = walk(t[k])
			}
		}
		return v
	}
	return walk(v)
}

func changeNode(r *gen.RNG, p gen.Profile, v any) any {
	switch t := v.(type) {
	case []any:
		switch r.Intn(4) {
		case 0:
			return append(t, gen.Scalar(r, p))
		case 1:
			if len(t) > 0 {
				return t[:len(t)-1]
			}
			return ""
		case 2:
			if len(t) > 0 { // duplicate one (changes a list and a bag, not a set)
				return append(t, ref.Clone(t[r.Intn(len(t))]))
			}
			return map[string]any{}
		default:
			if len(t) == 0 {
				return ""
			}
			return []any{t}
		}
	case map[string]any:
		ks := ref.SortedKeys(t)
		if len(ks) > 0 && r.Chance(0.5) {
			delete(t, gen.Pick(r, ks))
			return t
		}
		if len(ks) == 0 && r.Chance(0.5) {
			return []any{}
		}
		t["zz"] = gen.Scalar(r, p)
		return t
	case string:
		switch r.Intn(7) {
		case 0:
			if t == "" {
				return []any{}
			}
			return t + "x"
		case 1:
			return nil
		case 2:
			return t + "\n" // differs by a final line break only
		case 3:
			if strings.HasSuffix(t, "\n") {
				return strings.TrimSuffix(t, "\n")
			}
			return t + " "
		case 4:
			if u := strings.ToUpper(t); u != t {
				return u
			}
			return " " + t
		default:
			return gen.Scalar(r, p)
		}
	case float64:
		switch r.Intn(4) {
		case 0:
			return ref.ToJSON(t) // the number as a string
		case 1:
			return t + 1
		case 2:
			if y := math.Nextafter(t, math.Inf(1)); !math.IsInf(y, 0) {
				return y // the neighbouring float64
			}
			return math.Nextafter(t, 0)
		default:
			return gen.Scalar(r, p)
		}
	case bool:
		return !t
	default:
		return gen.Scalar(r, p)
	}
}

// confusable atoms for the exhaustive small-document stratum (JSON text;
// "" is the void document).
var confusable = []string{``, `null`, `""`, `[]`, `{}`, `0`, `false`, `true`, `1`, `"0"`, `"null"`, `"false"`, `"[]"`, `"{}"`, `"a"`,
	`[[]]`, `[""]`, `[{}]`, `[null]`, `[0]`, `[false]`, `[[],[]]`, `["",""]`, `[[],""]`, `["",[]]`, `[[[]]]`, `[[""]]`, `[{},{}]`,
	`{"":""}`, `{"a":[]}`, `{"a":""}`, `{"a":{}}`, `{"a":null}`, `{"a":1,"b":2}`, `{"a":2,"b":1}`, `{"a":"b"}`, `{"b":"a"}`, `-0`, `[-0]`, `[0,0]`, `[0,-0]`, `[1,2]`, `[2,1]`, `[1,1,2]`, `[1,2,2]`, `[[1,2],[2,1]]`, `[[2,1],[1,2]]`, `[[1,2]]`,
	`"a\n"`, `"a "`, `" a"`, `"A"`, `"a\u0000"`, `{"a\n":1}`, `{"a":1}`,
	`{"A":1}`, `{"a ":1}`, `{" a":1}`, `{"\u00e9":1}`, `{"e\u0301":1}`, `{"k":1}`, `{"K":1}`, `{"\u212a":1}`, `"\u00e9"`, `"e\u0301"`, `{"a":1,"A":1}`,
	`[[1,2],3]`, `[[1],2,3]`, `[[1],[2]]`, `[[1,[2]]]`, `[1,[2,3]]`, `{"a,b":1,"c":2}`, `{"a":1,"b,c":2}`, `{"a":{"b":1}}`, `{"a.b":1}`, `{"a/b":1}`}

// midDiffPair returns two strings of n bytes that are equal except for one
// byte in the middle (same length, same head, same tail).
func midDiffPair(n int) (string, string) {
	b := make([]byte, n)
	for i := range b {
		b[i] = "abcdefghij"[i%10]
	}
	x := string(b)
	b[n/2] = 'Z'
	return x, string(b)
}

func repeatText(t string, k int) []string {
	out := make([]string, k)
	for i := range out {
		out[i] = t
	}
	return out
}

// bulky atoms (JSON texts): long strings that differ only in the middle, and
// bags whose member counts differ by multiples of 256 at equal total length.
var bulky = func() []string {
	var out []string
	for _, n := range []int{600, 1100, 5000, 70000} {
		x, y := midDiffPair(n)
		out = append(out, ref.ToJSON(x), ref.ToJSON(y))
	}
	bag := func(nx, ny int) string {
		return "[" + strings.Join(append(repeatText(`"x"`, nx), repeatText(`"y"`, ny)...), ",") + "]"
	}
	out = append(out, bag(257, 1), bag(1, 257), bag(300, 44), bag(44, 300), bag(512, 3), bag(256, 259), bag(129, 129), bag(255, 3), bag(3, 255))
	x, y := midDiffPair(1100)
	out = append(out, ref.ToJSON([]any{x, y}), ref.ToJSON([]any{y, x}), ref.ToJSON([]any{x, x}), ref.ToJSON(map[string]any{x: 1.0}), ref.ToJSON(map[string]any{y: 1.0}))
	return out
}()

// partialCollisions returns pairs of short strings whose jd digests (hook
// VerifHashCode) agree in their first four bytes, and pairs agreeing in their
// last four: a birthday search over a few hundred thousand strings. Any code
// that orders, buckets or compares digests by a part of them meets a tie here.
var (
	partialOnce  sync.Once
	partialPairs [][2]string
)

func partialCollisions() [][2]string {
	partialOnce.Do(func() {
		first, last := map[[4]byte]string{}, map[[4]byte]string{}
		nf, nl := 0, 0
		r := gen.New(0x9C0111, 1)
		for i := 0; i < 1500000 && (nf < 3 || nl < 3); i++ {
			// random lower-case words of 5-8 letters (digests of consecutive spellings are too regular to collide)
			var w [8]byte
			n := 5 + r.Intn(4)
			for k := 0; k < n; k++ {
				w[k] = byte('a' + r.Intn(26))
			}
			s := string(w[:n])
			h := jd.VerifHashCode(Node(s))
			var a, b [4]byte
			copy(a[:], h[:4])
			copy(b[:], h[4:])
			if t, ok := first[a]; ok && t != s && nf < 3 {
				partialPairs = append(partialPairs, [2]string{t, s})
				nf++
			} else {
				first[a] = s
			}
			if t, ok := last[b]; ok && t != s && nl < 3 {
				partialPairs = append(partialPairs, [2]string{t, s})
				nl++
			} else {
				last[b] = s
			}
		}
	})
	return partialPairs
}

// twinsPair builds two arrays over members that are EQUAL under the set and
// multiset readings but spelled differently ([1,2] / [2,1], objects holding
// such arrays), so that a diff removes, keeps or adds several twins at once.
func twinsPair(r *gen.RNG) ([]any, []any) {
	pool := []any{[]any{1.0, 2.0}, []any{2.0, 1.0}, map[string]any{"t": []any{1.0, 2.0, 2.0}}, map[string]any{"t": []any{2.0, 2.0, 1.0}}, map[string]any{"t": []any{2.0, 1.0, 2.0}}, 3.0, "x", []any{1.0, 2.0}}
	mk := func(n int) []any {
		var l []any
		for k := 0; k < n; k++ {
			l = append(l, ref.Clone(gen.Pick(r, pool)))
		}
		return l
	}
	a := mk(r.Range(2, 6))
	var b []any
	for _, e := range a {
		if r.Chance(0.5) {
			b = append(b, ref.Clone(e))
		}
	}
	b = append(b, mk(r.Range(0, 2))...)
	if b == nil {
		b = []any{}
	}
	return a, b
}

// trickyPairs: document pairs whose difference is easy to lose for code that
// compares through a printed or joined form of keys or values.
var trickyPairs = [][2]string{
	{`{"a,b":1,"c":2}`, `{"a":1,"b,c":2}`}, {`{"x,y":[1],"z":{}}`, `{"x":[1],"y,z":{}}`}, {`{"a b":1,"c":2}`, `{"a":1,"b c":2}`},
	{`{"a":1,"b":2}`, `{"a":2,"b":1}`}, {`{"ab":1,"c":2}`, `{"a":1,"bc":2}`}, {`{"a":{"b":1}}`, `{"a.b":1}`}, {`{"a":["b"]}`, `{"a":"[\"b\"]"}`},
	{`{"k":"1,2"}`, `{"k":[1,2]}`}, {`{"k":["a,b"]}`, `{"k":["a","b"]}`}, {`{"1":"a","2":"b"}`, `["a","b"]`}, {`{"0":"a"}`, `["a"]`},
}

// wrapText places a JSON text at the root, in an array or under a key.
func wrapText(t string, how int) (string, bool) {
	if t == "" && how != 0 {
		return "", false // void cannot be nested
	}
	switch how {
	case 1:
		return "[" + t + "]", true
	case 2:
		return `{"k":` + t + `}`, true
	case 3:
		return "[" + t + "," + t + "]", true
	}
	return t, true
}

// aliasString returns the 8-byte string whose bytes are the little-endian
// IEEE-754 encoding of f, when that is valid UTF-8 (F8 trigger class).
func aliasString(f float64) (string, bool) {
	var b [8]byte
	binary.LittleEndian.PutUint64(b[:], math.Float64bits(f))
	if !utf8.Valid(b[:]) {
		return "", false
	}
	return string(b[:]), true
}

// aliasNumbers: numbers whose encoding is valid UTF-8 (all bytes < 0x80 here).
var aliasNumbers = func() []float64 {
	var out []float64
	for _, f := range []float64{0, 2, 3, 4, 5, 6, 8, 16, 32, 0.5, 0.25, 1024, 2.5, 65536} {
		if _, ok := aliasString(f); ok {
			out = append(out, f)
		}
	}
	return out
}()
