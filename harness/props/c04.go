package props

import (
	"fmt"
	"math"
	"strings"

	jd "github.com/josephburnett/jd/v2"

	"verifharness/gen"
	"verifharness/mon"
	"verifharness/ref"
)

func oracleEq(a, b any, o OptSet) bool {
	if o.HasEps {
		return ref.EqPrec(a, b, o.Eps)
	}
	return ref.Eq(a, b, o.Reading)
}

// ---- F8 deviation model: number / 8-byte-string hash alias ----

var aliasOf = func() map[string]float64 {
	m := map[string]float64{}
	for _, f := range aliasNumbers {
		s, _ := aliasString(f)
		m[s] = f
	}
	return m
}()

// hasAlias is the classifier of F8: v contains an 8-byte string whose bytes
// are the little-endian float64 encoding of a number.
func hasAlias(v any) bool {
	switch t := v.(type) {
	case string:
		if len(t) == 8 {
			_, ok := aliasOf[t]
			return ok
		}
	case []any:
		for _, e := range t {
			if hasAlias(e) {
				return true
			}
		}
	case map[string]any:
		for _, e := range t {
			if hasAlias(e) {
				return true
			}
		}
	}
	return false
}

// aliasQuotient replaces alias strings by their numbers wherever jd
// compares by hash code: inside arrays read as sets / multisets (hashed=true
// below an array), or everywhere when all=true (list-mode LCS matching).
func aliasQuotient(v any, hashed bool) any {
	switch t := v.(type) {
	case string:
		if hashed {
			if f, ok := aliasOf[t]; ok {
				return f
			}
		}
		return t
	case []any:
		out := make([]any, len(t))
		for i, e := range t {
			out[i] = aliasQuotient(e, true)
		}
		return out
	case map[string]any:
		out := map[string]any{}
		for k, e := range t {
			out[k] = aliasQuotient(e, hashed)
		}
		return out
	}
	return v
}

func c04Judge(c *mon.Ctx, aText, bText string, o OptSet, class string) {
	c.Input("a", aText)
	c.Input("b", bText)
	c.Input("options", o.Name)
	c.Feature("class:" + class)
	c.Feature("opt:" + o.Name)
	mkA, mkB := operand(c, aText, "a", 0.12), operand(c, bText, "b", 0.12)
	A, B := mkA(), mkB()
	a, b := ref.MustJSON(aText), ref.MustJSON(bText)
	want := oracleEq(a, b, o)
	got := A.Equals(B, o.O()...)
	rev := mkB().Equals(mkA(), o.O()...)
	refl := mkA().Equals(ReadJ(aText), o.O()...) && ReadJ(aText).Equals(mkA(), o.O()...)
	if same := mkA(); !same.Equals(same, o.O()...) {
		refl = false // the very same node on both sides
	}
	if aText != bText {
		c.Nontrivial(joinKey(aText, bText, o.Name))
	}
	if want {
		c.Feature("oracle_equal")
		if aText != bText {
			c.Feature("equal_but_textually_different")
		}
	} else {
		c.Feature("oracle_unequal")
	}
	if fmt.Sprintf("%T", a) != fmt.Sprintf("%T", b) {
		c.Feature("cross_type")
	}
	extra := map[string]any{"jd_equals": got, "oracle": want, "reading": o.Reading.String()}
	if !refl {
		c.Violation("Equals is not reflexive: a.Equals(a) is false", extra)
		return
	}
	if got != rev {
		c.Violation(fmt.Sprintf("Equals is not symmetric: a.Equals(b)=%v b.Equals(a)=%v", got, rev), extra)
		return
	}
	if got != want {
		reason := fmt.Sprintf("Equals=%v but the documents are %s under the %s reading", got, map[bool]string{true: "equal", false: "different"}[want], o.Reading)
		if !o.HasEps && o.Reading != ref.List && (hasAlias(a) || hasAlias(b)) &&
			got == ref.Eq(aliasQuotient(a, false), aliasQuotient(b, false), o.Reading) {
			c.Known("F8", reason, extra)
			return
		}
		c.Violation(reason, extra)
		return
	}
	c.Sample(extra)
}

// ---- hash-injectivity invariant (hook H1) ----

type hashSeen struct {
	canon string
	text  string
}

var hashTable = map[string]hashSeen{} // worker-wide: (option set, digest) -> first value seen

var hashOpts = []OptSet{OptNone, OptSetO, OptMset}

func subValues(v any, out *[]any) {
	*out = append(*out, v)
	switch t := v.(type) {
	case []any:
		for _, e := range t {
			subValues(e, out)
		}
	case map[string]any:
		for _, k := range ref.SortedKeys(t) {
			subValues(t[k], out)
		}
	}
}

func c04HashCheck(c *mon.Ctx, doc any) {
	var subs []any
	subValues(doc, &subs)
	for _, v := range subs {
		if ref.IsVoid(v) {
			continue
		}
		text := ref.ToJSON(v)
		node := ReadJ(text)
		for _, o := range hashOpts {
			h := jd.VerifHashCode(node, o.O()...)
			key := o.Name + string(h[:])
			canon := ref.Canon(v, o.Reading)
			c.Feature("hash_observations")
			prev, ok := hashTable[key]
			if !ok {
				hashTable[key] = hashSeen{canon, text}
				c.Feature("hash_distinct_values")
				continue
			}
			if prev.canon == canon {
				continue
			}
			// Suspect: two different values under one digest. Only a misbehaving
			// public API is a violation.
			c.Feature("hash_suspects")
			x, y := "["+prev.text+"]", "["+text+"]"
			c.Input("x", x)
			c.Input("y", y)
			bad := []string{}
			if ReadJ(x).Equals(ReadJ(y), jd.SET) && !ref.Eq(ref.MustJSON(x), ref.MustJSON(y), ref.Set) {
				bad = append(bad, "SET Equals true")
			}
			if ReadJ(x).Equals(ReadJ(y), jd.MULTISET) && !ref.Eq(ref.MustJSON(x), ref.MustJSON(y), ref.Multiset) {
				bad = append(bad, "MULTISET Equals true")
			}
			if len(ReadJ(x).Diff(ReadJ(y))) == 0 && !ref.Eq(ref.MustJSON(x), ref.MustJSON(y), ref.List) {
				bad = append(bad, "list-mode Diff empty")
			}
			if len(bad) == 0 {
				continue
			}
			reason := fmt.Sprintf("two different values share one hash code (%s) and the public API confuses them: %s", o.Name, strings.Join(bad, ", "))
			if hasAlias(ref.MustJSON(x)) != hasAlias(ref.MustJSON(y)) {
				c.Known("F8", reason, map[string]any{"x": x, "y": y})
			} else {
				c.Violation(reason, map[string]any{"x": x, "y": y})
			}
		}
	}
}

var c04Opts = []OptSet{OptNone, OptSetO, OptMset, OptKeys1, OptPrecision(0), OptPrecision(1e-9), OptPrecision(0.1), OptPrecision(1.5)}

var numbersNear = []any{0.0, math.Copysign(0, -1), 1.0, 1.05, 1.1, 1.1000000001, 2.0, 2.5, 3.5, -1.0, 1e-7, 100.0, 100.1}

func init() {
	p := &mon.Property{
		ID: "C04",
		Rule: "cases are (a, b, option set) with b built as: identical, equal-but-reordered/duplicated under the reading, near miss (one node changed at depth), " +
			"mutation, independent; plus all ordered pairs of a type-confusable atom list at 4 wrappings, number/8-byte-string alias pairs, and a hash-injectivity " +
			"invariant over every sub-value (hook VerifHashCode); non-trivial = the two operands differ textually; distinct = distinct (a, b, options)",
		Floors: map[string]int{"oracle_equal": 5000, "oracle_unequal": 5000, "equal_but_textually_different": 2000, "cross_type": 1000,
			"class:near-miss": 3000, "hash_distinct_values": 1000, "a_is_patch_result": 3000, "b_is_patch_result": 3000},
		Assumptions: []string{
			"the oracle is ref.Canon (type-tagged canonical forms; sets = sorted unique member canons, recursively; multisets = sorted member canons) and ref.EqPrec for Precision",
			"SetKeys is read as the set reading (jd's Equals under SetKeys compares whole members)",
			"true 64-bit FNV collisions between unrelated values are out of reach of any run",
			"-0 and 0 are the same number (ref.Canon normalises the sign of zero)",
		},
	}
	for _, o := range c04Opts {
		o := o
		p.Strata = append(p.Strata, mon.Stratum{
			Name: "random/" + o.Name,
			N:    qt(15000, 1500000),
			Run: func(c *mon.Ctx, i int) {
				prof := []gen.Profile{gen.PDefault, gen.PTiny, gen.PNulls, gen.PDeep}[i%4]
				if o.HasEps {
					prof.Scalars = append(append([]any{}, numbersNear...), "a", true, nil)
				}
				a, b, class := eqPair(c.R, o, prof)
				c04Judge(c, ref.ToJSON(a), ref.ToJSON(b), o, class)
			},
		})
	}
	for _, o := range []OptSet{OptNone, OptSetO, OptMset, OptKeys1} {
		o := o
		nb := len(bulky)
		p.Strata = append(p.Strata, mon.Stratum{
			Name:       "exh-bulky/" + o.Name,
			N:          n(nb * nb * 3),
			Exhaustive: always,
			Run: func(c *mon.Ctx, i int) {
				// long strings differing only in the middle; bags whose counts differ by multiples of 256
				how := i % 3
				x, y := bulky[(i/3)/nb], bulky[(i/3)%nb]
				a, _ := wrapText(x, how)
				b, _ := wrapText(y, how)
				c.Feature("bulky_pairs")
				c04Judge(c, a, b, o, "bulky")
			},
		})
	}
	for _, o := range []OptSet{OptNone, OptSetO, OptMset, OptKeys1} {
		o := o
		nAtoms := len(confusable)
		p.Strata = append(p.Strata, mon.Stratum{
			Name:       "exh-confusable/" + o.Name,
			N:          n(nAtoms * nAtoms * 4),
			Exhaustive: always,
			Run: func(c *mon.Ctx, i int) {
				how := i % 4
				x, y := confusable[(i/4)/nAtoms], confusable[(i/4)%nAtoms]
				a, ok1 := wrapText(x, how)
				b, ok2 := wrapText(y, how)
				if !ok1 || !ok2 {
					c.Skip("void cannot be nested")
					return
				}
				c04Judge(c, a, b, o, "confusable")
			},
		})
	}
	badUTF8 := []string{"caf\xe9", "caf\xe8", "\xff", "\ufffd", "k\xfe", "k\xff", "ok", "\xed\xa0\x80", "\xc0\xaf"}
	p.Strata = append(p.Strata, mon.Stratum{
		Name:       "go-strings-with-invalid-utf8",
		N:          n(len(badUTF8) * len(badUTF8) * 4 * 3),
		Exhaustive: always,
		Run: func(c *mon.Ctx, i int) {
			// documents built with NewJsonNode from Go values (no JSON text can carry these bytes): strings and
			// keys that differ only in bytes which are not valid UTF-8 are different values under every reading
			nb := len(badUTF8)
			x, y := badUTF8[i%nb], badUTF8[(i/nb)%nb]
			how := (i / (nb * nb)) % 4
			o := []OptSet{OptNone, OptSetO, OptMset}[(i/(nb*nb*4))%3]
			wrap := func(s string) any {
				switch how {
				case 1:
					return []any{s, "z"}
				case 2:
					return map[string]any{"k": []any{s}}
				case 3:
					return []any{map[string]any{s: 1.0}}
				}
				return s
			}
			A, e1 := jd.NewJsonNode(wrap(x))
			B, e2 := jd.NewJsonNode(wrap(y))
			c.Input("a_go", fmt.Sprintf("%q", x))
			c.Input("b_go", fmt.Sprintf("%q", y))
			c.Input("options", o.Name)
			if e1 != nil || e2 != nil {
				c.Skip("NewJsonNode refuses the value")
				return
			}
			c.Feature("invalid_utf8_pairs")
			c.Nontrivial(joinKey("bad", fmt.Sprintf("%q%q%d", x, y, how), o.Name))
			if got, want := A.Equals(B, o.O()...), x == y; got != want {
				c.Violation(fmt.Sprintf("Equals=%v for Go strings %q and %q (placement %d) under %s", got, x, y, how, o.Name), nil)
			}
		},
	})
	p.Strata = append(p.Strata, mon.Stratum{
		Name:       "alias-strings",
		N:          n(len(aliasNumbers) * 4 * 4),
		Exhaustive: always,
		Run: func(c *mon.Ctx, i int) {
			f := aliasNumbers[i/16]
			s, _ := aliasString(f)
			o := []OptSet{OptNone, OptSetO, OptMset, OptKeys1}[(i/4)%4]
			var a, b any
			switch i % 4 {
			case 0:
				a, b = f, s
			case 1:
				a, b = []any{f}, []any{s}
			case 2:
				a, b = []any{[]any{f, 1.0}}, []any{[]any{1.0, s}}
			default:
				a, b = map[string]any{"k": []any{f}}, map[string]any{"k": []any{s}}
			}
			c04Judge(c, ref.ToJSON(a), ref.ToJSON(b), o, "alias")
		},
	})
	p.Strata = append(p.Strata, mon.Stratum{
		Name: "hash-injectivity",
		N:    qt(4000, 500000),
		Run: func(c *mon.Ctx, i int) {
			switch {
			case i < len(confusable):
				c04HashCheck(c, ref.MustJSON(confusable[i]))
				c04HashCheck(c, ref.MustJSON("["+confusableNonVoid(i)+"]"))
			case i < len(confusable)+len(aliasNumbers):
				f := aliasNumbers[i-len(confusable)]
				s, _ := aliasString(f)
				c04HashCheck(c, []any{f, s})
			default:
				prof := []gen.Profile{gen.PDefault, gen.PTiny, gen.PNulls, gen.PDeep}[i%4]
				c04HashCheck(c, gen.Doc(c.R, prof))
			}
			c.Nontrivial(fmt.Sprint("hash", i))
		},
	})
	mon.Register(p)
}

func confusableNonVoid(i int) string {
	if confusable[i] == "" {
		return "null"
	}
	return confusable[i]
}
