package props

import (
	"fmt"
	jd "github.com/josephburnett/jd/v2"

	"verifharness/gen"
	"verifharness/mon"
	"verifharness/ref"
)

var mergeProfiles = []gen.Profile{
	gen.PObjects.With(func(p *gen.Profile) { p.Scalars = withoutNull(p.Scalars) }),
	gen.PDefault.With(func(p *gen.Profile) { p.Scalars = withoutNull(p.Scalars) }),
	gen.PTiny,
	gen.PDeep.With(func(p *gen.Profile) { p.Scalars = withoutNull(p.Scalars); p.PArr = 0.3 }),
	gen.PHostile.With(func(p *gen.Profile) { p.Scalars = withoutNull(p.Scalars); p.PArr = 0.25 }),
	gen.PNumbers,
	gen.PSyntaxy.With(func(p *gen.Profile) { p.Scalars = withoutNull(p.Scalars) }),
}

func c11Case(c *mon.Ctx, aText, bText string, o OptSet) {
	c.Input("a", aText)
	c.Input("b", bText)
	c.Input("options", o.Name)
	a, b := ref.MustJSON(aText), ref.MustJSON(bText)
	if ref.Eq(a, b, o.Reading) {
		c.Skip("a equals b under the reading (the property demands documents that differ)")
		return
	}
	if ref.IsVoid(a) || ref.IsVoid(b) {
		c.Skip("void document")
		return
	}
	d := ReadJ(aText).Diff(ReadJ(bText), o.O()...)
	hs := Hunks(d)
	diffFeatures(c, hs)
	c.Feature("opt:" + o.Name)
	m, err := ReadJ(aText).Diff(ReadJ(bText), o.O()...).RenderMerge()
	c.Input("merge_patch", m)
	extra := map[string]any{"merge_diff": ref.HunksString(hs)}
	if c.Index%4 == 1 {
		// the chain Render -> ReadDiffString -> RenderMerge
		if rd, rerr := jd.ReadDiffString(ReadJ(aText).Diff(ReadJ(bText), o.O()...).Render()); rerr == nil {
			m2, err2 := rd.RenderMerge()
			c.Feature("reread_diff_rendered")
			if (err == nil) != (err2 == nil) || (err == nil && m2 != m) {
				c.Violation("RenderMerge of the re-read native diff differs from RenderMerge of the diff in memory", map[string]any{"in_memory": fmt.Sprint(m, err), "reread": fmt.Sprint(m2, err2)})
				return
			}
		}
	}
	if err != nil {
		c.Violation("RenderMerge failed on a merge-mode diff: "+err.Error(), extra)
		return
	}
	pv, perr := ref.FromJSON(m)
	if perr != nil || ref.IsVoid(pv) {
		c.Violation("RenderMerge output is not a JSON document", extra)
		return
	}
	c.Nontrivial(joinKey(aText, bText, o.Name))
	got := ref.MergePatch(a, pv)
	if !ref.Eq(got, b, o.Reading) {
		extra["rfc_result"] = ref.ToJSON(got)
		if _, isObj := b.(map[string]any); isObj && len(b.(map[string]any)) == 0 {
			c.Feature("b_is_empty_object")
		}
		c.Violation("RFC 7386 MergePatch(a, rendered merge patch) does not yield b", extra)
		return
	}
	if _, isObj := pv.(map[string]any); isObj {
		c.Feature("patch_is_object")
		if ref.HasNull(pv) {
			c.Feature("patch_deletes_a_member")
		}
	} else {
		c.Feature("patch_replaces_root")
	}
	c.Sample(extra)
}

func init() {
	p := &mon.Property{
		ID: "C11",
		Rule: "cases are null-free (a, b) pairs that differ under the reading, x {MERGE, SET+MERGE, MULTISET+MERGE}: key removal at depth, object <-> scalar <-> array changes, empty objects and arrays on either side, b = {}, hostile keys, and an exhaustive family of small objects; " +
			"the rendered merge patch is applied to a by the RFC 7386 pseudocode and must give b under the reading; non-trivial = every evaluated case; distinct = distinct (a, b, options)",
		Floors:      map[string]int{"patch_is_object": 10000, "patch_deletes_a_member": 3000, "patch_replaces_root": 2000, "hunk_merge_delete": 3000, "hunk_depth>=3": 500, "type_confusable_elements": 1500},
		Assumptions: []string{"documents are null-free and differ under the reading (stated preconditions)", "ref.MergePatch is the RFC 7386 pseudocode verbatim"},
	}
	for _, o := range []OptSet{OptMerge, OptSetMerge, OptMsMerge} {
		o := o
		p.Strata = append(p.Strata, mon.Stratum{
			Name: "random/" + o.Name,
			N:    qt(25000, 4800000),
			Run: func(c *mon.Ctx, i int) {
				prof := mergeProfiles[i%len(mergeProfiles)]
				a, b := gen.Pair(c.R, prof)
				if i%11 == 0 {
					b = map[string]any{}
				}
				if i%13 == 0 {
					a = map[string]any{}
				}
				if i%6 == 5 {
					a, b = gen.DeepChainPair(c.R, prof, true)
					c.Feature("deep_chain_pairs")
				}
				if i%10 == 7 {
					// numbers that differ in the last bits only
					near := [][2]float64{{0.30000000000000004, 0.3}, {1.0000000000000002, 1}, {4503599627370497, 4503599627370498}, {9007199254740991, 9007199254740990}, {1e-300, 2e-300}, {123456789.12345678, 123456789.12345679}}
					n := gen.Pick(c.R, near)
					a = map[string]any{"k": n[0], "arr": []any{1.0, n[0]}, "o": map[string]any{"n": n[0]}}
					b = map[string]any{"k": n[1], "arr": []any{1.0, n[1]}, "o": map[string]any{"n": n[1]}}
					if c.R.Chance(0.5) {
						b.(map[string]any)["k"] = n[0]
					}
					c.Feature("ulp_neighbours")
				}
				c11Case(c, ref.ToJSON(a), ref.ToJSON(b), o)
			},
		})
	}
	p.Strata = append(p.Strata, mon.Stratum{
		Name: "type-confusable-elements",
		N:    qt(2000, 100000),
		Run: func(c *mon.Ctx, i int) {
			// arrays (replaced wholesale in merge mode) that are identical except for one element
			// whose two values are easy to confuse: a number and the 8-byte string with its bit
			// pattern, a value and its spelling, empty containers of different kinds
			var twins [][2]any
			o := []OptSet{OptMerge, OptSetMerge, OptMsMerge}[(i/7)%3]
			if !o.Merge || o.Reading == ref.List {
				// the digest twins of open finding F8 only under the list reading (set readings compare digests)
				for _, f := range aliasNumbers {
					s, _ := aliasString(f)
					twins = append(twins, [2]any{s, f})
				}
			}
			twins = append(twins, [2]any{"y", "y\u0000"}, [2]any{"", "\u0000"}, [2]any{"ab", "ab "}, [2]any{"1", 1.0}, [2]any{"true", true}, [2]any{"", []any{}}, [2]any{[]any{}, map[string]any{}}, [2]any{"{}", map[string]any{}}, [2]any{0.0, false}, [2]any{"a", "a\n"})
			t := twins[i%len(twins)]
			if c.R.Chance(0.5) {
				t[0], t[1] = t[1], t[0]
			}
			wrapEl := func(v any) any {
				switch (i / len(twins)) % 3 {
				case 1:
					return map[string]any{"id": 1.0, "v": v}
				case 2:
					return []any{v}
				}
				return v
			}
			base := gen.Array(c.R, gen.PTiny, c.R.Range(0, 4), 0)
			pos := c.R.Intn(len(base) + 1)
			mk := func(v any) any {
				l := append(append(append([]any{}, base[:pos]...), wrapEl(v)), base[pos:]...)
				return gen.Wrap(l, 1+i%2*2)
			}
			c.Feature("type_confusable_elements")
			c11Case(c, ref.ToJSON(mk(t[0])), ref.ToJSON(mk(t[1])), o)
		},
	})
	p.Strata = append(p.Strata, mon.Stratum{
		Name:       "tricky-pairs",
		N:          n(len(trickyPairs) * 2 * 3 * 3),
		Exhaustive: always,
		Run: func(c *mon.Ctx, i int) {
			tp := trickyPairs[i%len(trickyPairs)]
			if (i/len(trickyPairs))%2 == 1 {
				tp[0], tp[1] = tp[1], tp[0]
			}
			how := []int{0, 2, 1}[(i/(2*len(trickyPairs)))%3]
			o := []OptSet{OptMerge, OptSetMerge, OptMsMerge}[(i/(6*len(trickyPairs)))%3]
			a, _ := wrapText(tp[0], how)
			b, _ := wrapText(tp[1], how)
			c.Feature("tricky_pairs")
			c11Case(c, a, b, o)
		},
	})
	small := smallMergeDocs(false)
	p.Strata = append(p.Strata, mon.Stratum{
		Name:       "exh-small-docs/MERGE",
		N:          n(len(small) * len(small)),
		Exhaustive: always,
		Run: func(c *mon.Ctx, i int) {
			c11Case(c, small[i/len(small)], small[i%len(small)], OptMerge)
		},
	})
	mon.Register(p)
}

// smallMergeDocs: an exhaustive family of small documents: objects of <= 2
// keys over leaf values to depth 2, plus scalars and arrays at the root.
func smallMergeDocs(withNull bool) []string {
	leaves := []string{`1`, `{}`, `{"x":1}`, `[1]`, `"s"`, `[]`}
	if withNull {
		leaves = append(leaves, `null`, `{"x":null}`)
	}
	var lvl1 []string
	lvl1 = append(lvl1, leaves...)
	for _, v := range leaves {
		lvl1 = append(lvl1, `{"a":`+v+`}`)
	}
	for _, v := range leaves {
		for _, w := range leaves {
			lvl1 = append(lvl1, `{"a":`+v+`,"b":`+w+`}`)
		}
	}
	out := append([]string{}, lvl1...)
	for _, v := range lvl1[len(leaves):] {
		out = append(out, `{"a":`+v+`}`)
	}
	seen := map[string]bool{}
	var uniq []string
	for _, s := range out {
		k := ref.Canon(ref.MustJSON(s), ref.List)
		if !seen[k] {
			seen[k] = true
			uniq = append(uniq, s)
		}
	}
	return uniq
}

var _ jd.Diff
