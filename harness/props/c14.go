package props

import (
	"fmt"
	"os"
	"path/filepath"
	"strings"

	lib "github.com/josephburnett/jd/lib"
	jd "github.com/josephburnett/jd/v2"

	"verifharness/gen"
	"verifharness/mon"
	"verifharness/ref"
)

// cliShape is one flag combination of diff or patch mode.
type cliShape struct {
	arr       string // "", "set", "mset", "setkeys", "set+setkeys"
	yaml      bool
	color     bool
	precision bool
	format    string // "", "jd", "patch", "merge"
	out       bool
	stdin     bool
	patchMode bool
}

func (s cliShape) String() string {
	return fmt.Sprintf("arr=%s yaml=%v color=%v precision=%v f=%q -o=%v stdin=%v -p=%v", s.arr, s.yaml, s.color, s.precision, s.format, s.out, s.stdin, s.patchMode)
}

func (s cliShape) flags() []string {
	var f []string
	switch s.arr {
	case "set":
		f = append(f, "-set")
	case "mset":
		f = append(f, "-mset")
	case "setkeys":
		f = append(f, "-setkeys", "id")
		if s.precision && s.color {
			f[len(f)-1] = " id , " + "k2" // blanks around the names are trimmed (and a second key)
		}
	case "set+setkeys":
		f = append(f, "-set", "-setkeys=id")
	case "mset+setkeys":
		f = append(f, "-mset", "-setkeys", "id")
	}
	if s.yaml {
		f = append(f, "-yaml")
	}
	if s.color {
		f = append(f, "-color")
	}
	if s.precision {
		f = append(f, "-precision", "0.1")
	}
	if s.format != "" {
		f = append(f, "-f", s.format)
	}
	return f
}

var cliShapes = func() []cliShape {
	var out []cliShape
	for _, arr := range []string{"", "set", "mset", "setkeys", "set+setkeys", "mset+setkeys"} {
		for _, yaml := range []bool{false, true} {
			for _, color := range []bool{false, true} {
				for _, prec := range []bool{false, true} {
					for _, f := range []string{"", "jd", "patch", "merge"} {
						for _, o := range []bool{false, true} {
							for _, in := range []bool{false, true} {
								out = append(out, cliShape{arr, yaml, color, prec, f, o, in, false})
							}
						}
					}
				}
			}
		}
	}
	return out
}()

func (s cliShape) v2opts() ([]jd.Option, bool) {
	if s.precision && (s.arr == "set" || s.arr == "mset" || s.arr == "set+setkeys" || s.arr == "mset+setkeys") {
		return nil, false
	}
	var o []jd.Option
	switch s.arr {
	case "set":
		o = append(o, jd.SET)
	case "mset":
		o = append(o, jd.MULTISET)
	case "setkeys":
		if s.precision && s.color {
			o = append(o, jd.SetKeys("id", "k2"))
		} else {
			o = append(o, jd.SetKeys("id"))
		}
	case "set+setkeys":
		o = append(o, jd.SET, jd.SetKeys("id"))
	case "mset+setkeys":
		o = append(o, jd.MULTISET, jd.SetKeys("id")) // the order the documented option list gives: -mset before -setkeys
	}
	if s.format == "merge" {
		o = append(o, jd.MERGE)
	}
	p := 0.0
	if s.precision {
		p = 0.1
	}
	o = append(o, jd.Precision(p))
	return o, true
}

func (s cliShape) v1md() ([]lib.Metadata, bool) {
	if s.precision && (s.arr == "set" || s.arr == "mset" || s.arr == "set+setkeys" || s.arr == "mset+setkeys") {
		return nil, false
	}
	var o []lib.Metadata
	switch s.arr {
	case "set":
		o = append(o, lib.SET)
	case "mset":
		o = append(o, lib.MULTISET)
	case "setkeys":
		if s.precision && s.color {
			o = append(o, lib.Setkeys("id", "k2"))
		} else {
			o = append(o, lib.Setkeys("id"))
		}
	case "set+setkeys":
		o = append(o, lib.SET, lib.Setkeys("id"))
	case "mset+setkeys":
		o = append(o, lib.MULTISET, lib.Setkeys("id"))
	}
	if s.format == "merge" {
		o = append(o, lib.MERGE)
	}
	p := 0.0
	if s.precision {
		p = 0.1
	}
	o = append(o, lib.SetPrecision(p))
	return o, true
}

// modelDiff is the CLI model for diff mode: the library calls the
// documentation describes for these flags, and the documented status.
func modelDiff(s cliShape, v1 bool, aText, bText string) (stdout string, status int) {
	if v1 {
		md, ok := s.v1md()
		if !ok {
			return "", 2
		}
		rd := lib.ReadJsonString
		if s.yaml {
			rd = lib.ReadYamlString
		}
		A, err := rd(aText)
		if err != nil {
			return "", 2
		}
		B, err := rd(bText)
		if err != nil {
			return "", 2
		}
		d := A.Diff(B, md...)
		var txt string
		switch s.format {
		case "", "jd":
			if s.color {
				txt = d.Render(lib.COLOR)
			} else {
				txt = d.Render()
			}
		case "patch":
			txt, err = d.RenderPatch()
		case "merge":
			txt, err = d.RenderMerge()
		}
		if err != nil {
			return "", 2
		}
		if len(d) > 0 {
			return txt, 1
		}
		return txt, 0
	}
	opts, ok := s.v2opts()
	if !ok {
		return "", 2
	}
	rd := jd.ReadJsonString
	if s.yaml {
		rd = jd.ReadYamlString
	}
	A, err := rd(aText)
	if err != nil {
		return "", 2
	}
	B, err := rd(bText)
	if err != nil {
		return "", 2
	}
	d := A.Diff(B, opts...)
	var txt string
	switch s.format {
	case "", "jd":
		if s.color {
			txt = d.Render(jd.COLOR)
		} else {
			txt = d.Render()
		}
	case "patch":
		txt, err = d.RenderPatch()
	case "merge":
		txt, err = d.RenderMerge()
	}
	if err != nil {
		return "", 2
	}
	if len(d) > 0 {
		return txt, 1
	}
	return txt, 0
}

// modelPatch is the CLI model for patch mode.
func modelPatch(s cliShape, v1 bool, patchText, docText string) (stdout string, status int) {
	if v1 {
		md, ok := s.v1md()
		if !ok {
			return "", 2
		}
		var d lib.Diff
		var err error
		switch s.format {
		case "", "jd":
			d, err = lib.ReadDiffString(patchText)
		case "patch":
			d, err = lib.ReadPatchString(patchText)
		case "merge":
			d, err = lib.ReadMergeString(patchText)
		}
		if err != nil {
			return "", 2
		}
		rd := lib.ReadJsonString
		if s.yaml {
			rd = lib.ReadYamlString
		}
		A, err := rd(docText)
		if err != nil {
			return "", 2
		}
		P, err := A.Patch(d)
		if err != nil {
			return "", 2
		}
		if s.yaml {
			return P.Yaml(md...), 0
		}
		return P.Json(md...), 0
	}
	opts, ok := s.v2opts()
	if !ok {
		return "", 2
	}
	var d jd.Diff
	var err error
	switch s.format {
	case "", "jd":
		d, err = jd.ReadDiffString(patchText)
	case "patch":
		d, err = jd.ReadPatchString(patchText)
	case "merge":
		d, err = jd.ReadMergeString(patchText)
	}
	if err != nil {
		return "", 2
	}
	rd := jd.ReadJsonString
	if s.yaml {
		rd = jd.ReadYamlString
	}
	A, err := rd(docText)
	if err != nil {
		return "", 2
	}
	P, err := A.Patch(d)
	if err != nil {
		return "", 2
	}
	if s.yaml {
		return P.Yaml(opts...), 0
	}
	return P.Json(opts...), 0
}

// pairs for the CLI panel: keyed arrays so that every flag has something to bite on.
func c14Pair(r *gen.RNG, i int) (any, any) {
	// kinds 0 and 4 are meant to differ under every reading: retry (deterministically) until they do
	if k := i % 5; k == 0 || k == 4 {
		for try := 0; try < 50; try++ {
			a, b := c14PairOnce(r, i)
			if !ref.Eq(a, b, ref.Set) && !ref.Eq(a, b, ref.Multiset) && !ref.EqPrec(a, b, 0.1) {
				return a, b
			}
		}
	}
	return c14PairOnce(r, i)
}

func c14PairOnce(r *gen.RNG, i int) (any, any) {
	switch i % 5 {
	case 0:
		return keyedMemberPair(r, gen.PTiny, []string{"id"})
	case 1:
		a := gen.KeyedDoc(r, gen.PDefault.With(func(p *gen.Profile) { p.Scalars = append(withoutNull(p.Scalars), 1.05, 1.0, 2.5) }), []string{"id"})
		return a, ref.Clone(a) // no difference
	case 2:
		a := gen.KeyedDoc(r, gen.PTiny, []string{"id"})
		return a, reorder(r, ref.Clone(a), false) // equal as sets / bags only
	case 3:
		return []any{1.0, 2.5, map[string]any{"id": 1.0, "v": 1.0}}, []any{1.05, 2.5, map[string]any{"id": 1.0, "v": 1.04}} // within precision
	default:
		return gen.KeyedPair(r, gen.PDefault.With(func(p *gen.Profile) { p.Scalars = withoutNull(p.Scalars) }), []string{"id"})
	}
}

func fileText(v any, yaml bool, st ref.YamlStyle) string {
	if yaml {
		return ref.YamlEmit(v, st)
	}
	return ref.ToJSON(v)
}

func readOut(c *mon.Ctx, name string) (string, bool) {
	b, err := os.ReadFile(filepath.Join(c.WorkDir, name))
	if err != nil {
		return "", false
	}
	return string(b), true
}

func c14DiffCase(c *mon.Ctx, s cliShape, bin Binary, a, b any) {
	aText, bText := fileText(a, s.yaml, ref.YBlockDouble), fileText(b, s.yaml, ref.YBlockSingle)
	c.Input("shape", s.String())
	c.Input("binary", bin.Name)
	c.Input("a", aText)
	c.Input("b", bText)
	wantOut, wantStatus := modelDiff(s, bin.V1, aText, bText)
	args := s.flags()
	os.Remove(filepath.Join(c.WorkDir, "out.txt"))
	if s.out {
		args = append(args, "-o", "out.txt")
	}
	stdin := ""
	files := map[string]string{"a.in": aText, "b.in": bText}
	if s.out && s.stdin {
		// the output file already exists and is longer than anything jd will write
		files["out.txt"] = strings.Repeat("previous contents of the output file\n", 400)
		c.Feature("-o_onto_existing_longer_file")
	}
	if s.stdin {
		args = append(args, "a.in")
		stdin = bText
	} else {
		args = append(args, "a.in", "b.in")
	}
	res := RunCLI(c, bin, args, stdin, files)
	c.Feature("cli_runs")
	c.Feature(fmt.Sprintf("status_%d", res.Status))
	c.Feature("bin:" + bin.Name)
	c.Nontrivial(joinKey(s.String(), bin.Name, aText, bText))
	extra := map[string]any{"argv": fmt.Sprint(args), "status": res.Status, "stdout": res.Stdout, "stderr": res.Stderr, "model_status": wantStatus, "model_output": wantOut}
	if HasCrashMarkers(res.Stderr) {
		c.Violation("the CLI crashed", extra)
		return
	}
	if res.Status != wantStatus {
		c.Violation(fmt.Sprintf("exit status %d, the documented contract gives %d", res.Status, wantStatus), extra)
		return
	}
	if wantStatus == 2 {
		c.Feature("error_cases")
		return
	}
	got := res.Stdout
	if s.out {
		c.Feature("with_-o")
		f, ok := readOut(c, "out.txt")
		if !ok {
			c.Violation("-o FILE given but the file was not written", extra)
			return
		}
		if res.Stdout != "" {
			c.Violation("-o FILE given but output also went to stdout", extra)
			return
		}
		got = f
		extra["file"] = f
	}
	if got != wantOut {
		c.Violation("output differs from what the library renders for these options", extra)
		return
	}
	if s.stdin {
		c.Feature("second_input_from_stdin")
	}
	if s.color && wantOut != "" {
		c.Feature("colour_output")
	}
	c.Sample(extra)
}

func c14PatchCase(c *mon.Ctx, s cliShape, bin Binary, a, b any) {
	// the patch text comes from the library (model), the run under test is -p
	aText, bText := fileText(a, s.yaml, ref.YBlockDouble), fileText(b, s.yaml, ref.YBlockDouble)
	ds := s
	ds.color = false
	patchText, st := modelDiff(ds, bin.V1, aText, bText)
	if st == 2 {
		c.Skip("no patch text for this shape (diff refused)")
		return
	}
	c.Input("shape", s.String())
	c.Input("binary", bin.Name)
	c.Input("patch", patchText)
	c.Input("a", aText)
	wantOut, wantStatus := modelPatch(s, bin.V1, patchText, aText)
	args := append(s.flags(), "-p")
	os.Remove(filepath.Join(c.WorkDir, "out.txt"))
	if s.out {
		args = append(args, "-o", "out.txt")
	}
	stdin := ""
	if s.stdin {
		args = append(args, "p.in")
		stdin = aText
	} else {
		args = append(args, "p.in", "a.in")
	}
	pfiles := map[string]string{"p.in": patchText, "a.in": aText}
	if s.out && !s.stdin {
		pfiles["out.txt"] = strings.Repeat("previous contents of the output file\n", 400)
		c.Feature("-o_onto_existing_longer_file")
	}
	res := RunCLI(c, bin, args, stdin, pfiles)
	c.Feature("cli_runs")
	c.Feature("patch_mode_runs")
	c.Feature("bin:" + bin.Name)
	c.Nontrivial(joinKey("p", s.String(), bin.Name, aText, bText))
	extra := map[string]any{"argv": fmt.Sprint(args), "status": res.Status, "stdout": res.Stdout, "stderr": res.Stderr, "model_status": wantStatus, "model_output": wantOut}
	if HasCrashMarkers(res.Stderr) {
		c.Violation("the CLI crashed", extra)
		return
	}
	if res.Status != wantStatus {
		c.Violation(fmt.Sprintf("exit status %d, the documented contract gives %d", res.Status, wantStatus), extra)
		return
	}
	if wantStatus == 2 {
		c.Feature("error_cases")
		return
	}
	got := res.Stdout
	if s.out {
		f, ok := readOut(c, "out.txt")
		if !ok || res.Stdout != "" {
			c.Violation("-o FILE: file missing or output also on stdout", extra)
			return
		}
		got = f
	}
	if got != wantOut {
		c.Violation("patched document differs from what the library renders for these options", extra)
		return
	}
	// round trip: content equals b under the flags
	var back any
	var err error
	if s.yaml {
		var Y jd.JsonNode
		Y, err = jd.ReadYamlString(got)
		if err == nil {
			back = Plain(Y)
		}
	} else {
		back, err = ref.FromJSON(got)
	}
	reading := ref.List
	switch s.arr {
	case "set", "set+setkeys":
		reading = ref.Set
	case "setkeys":
		if !bin.V1 {
			reading = ref.Set
		}
	case "mset", "mset+setkeys":
		reading = ref.Multiset
	}
	okEq := err == nil && ref.Eq(back, b, reading)
	if !okEq && s.precision && err == nil {
		okEq = ref.EqPrec(back, b, 0.1)
	}
	if !okEq {
		reason := "jd [flags] a b | jd -p [flags] on a does not reproduce b"
		if s.format == "merge" && strings.TrimSpace(patchText) == "{}" && err == nil && ref.Eq(back, a, reading) {
			c.Known("F15", reason, extra)
			return
		}
		c.Violation(reason, extra)
		return
	}
	c.Feature("pipeline_reproduces_b:" + map[string]string{"": "jd", "jd": "jd", "patch": "patch", "merge": "merge"}[s.format])
	if s.yaml {
		c.Feature("pipeline_yaml")
	}
}

// documents that are empty in one way or another (ref.Void is the empty file)
var emptyish = []any{ref.Void{}, map[string]any{}, []any{}, "", nil, 0.0, []any{[]any{}}, map[string]any{"a": map[string]any{}}}

// legal JSON texts in unusual spellings
var jsonSpellings = []string{
	`{"k":"\ud83d\ude00"}`, `{"k":"a\/b"}`, `["\u0041\u00e9\u2028"]`, "\"a\x7fb\"", "{\"k\":\"a\u0085b\"}", "{\"a\u0085\":1}", `{"a":-0}`, `[-0.0,0]`, `[1E3,1.0,1e-7,100000000000000000000,1.5e300]`,
	"{\n\t\"a\": [\n\t\t1,\n\t\t2\n\t],\n\t\"b\": {}\n}\n", "  [1, 2]  ", `"x"`, `null`, `true`, `12`, `""`, `{}`, `[]`, `{"":""}`,
	`{"` + strings.Repeat("k", 1100) + `":1}`, `{"k":"` + strings.Repeat("v", 70000) + `"}`, `["\ud83d"]`, `{"a":1,"a":2}`, `[1,]`, `{"a":1}{"b":2}`, "\ufeff[1]",
	`{"y":"n","on":"off","~":"null","1":"2","0x1f":"0o17","2001-01-01":"1:30"}`, "[\"line1\\nline2\\n\", \" lead\", \"trail \", \"\\ttab\"]",
}

// YAML texts beyond the plain subset
var yamlSpellings = []string{
	"a: |\n  line1\n  line2\n", "a: |-\n  x\n", "a: >\n  folded\n  text\n", "a: |+\n  keep\n\n", "- &x 1\n- *x\n", "base: &b {k: 1}\nuse: *b\n", "a: !!str 1\nb: !!int \"2\"\n",
	"---\na: 1\n", "a: 1\n...\n", "---\na: 1\n---\nb: 2\n", "# comment\na: 1 # trailing\n", "[1, 2, {a: b}]\n", "{a: [1, 2], b: {c: d}}\n", "a: 0x1f\nb: 0o17\nc: 017\nd: 1_000\ne: 1:30\n",
	"a: y\nb: n\nc: on\nd: off\ne: Yes\nf: NO\n", "a: ~\nb: null\nc: Null\nd:\n", "a: .inf\n", "a: -.inf\n", "a: .nan\n", "? complex\n: value\n", "1: a\n2.5: b\ntrue: c\n", "a: 2001-01-01\nb: 2001-01-01T00:00:00Z\n",
	"a: \"\\x41\\u00e9\\U0001F600\"\n", "a: 'it''s'\n", "", "\n", "a: 1\na: 2\n", "a:\n- 1\n- 2\nb:\n  - 3\n", "\ta: 1\n", "a: [1, 2\n",
}

func init() {
	p := &mon.Property{
		ID: "C14",
		Rule: "process runs of the three binaries (v2/jd, jd, jd -v2=false): every combination of {-set,-mset,-setkeys,-set -setkeys,-mset -setkeys} x -yaml x -color x -precision x -f {none,jd,patch,merge} x -o x {file,stdin} (768 diff-mode shapes, 384 patch-mode shapes) x a panel of document pairs, translate modes (incl. json2yaml / yaml2json on a table of legal but unusual JSON and YAML spellings), -git-diff-driver and error cases; " +
			"each run is compared with a CLI model that maps the flags to the documented library calls: exit status, stdout bytes, -o file bytes (stdout empty), stdin vs file; the patch-mode leg feeds the library's diff to `jd -p` and requires the output to equal the library rendering and to reproduce b; " +
			"non-trivial = every run; distinct = distinct (shape, binary, inputs)",
		Floors: map[string]int{"cli_runs": 5000, "status_0": 500, "status_1": 500, "status_2": 200, "with_-o": 1000, "-o_onto_existing_longer_file": 500, "stdin_vs_file_pairs": 100, "setkeys_spellings": 100, "in_place_-o": 10, "second_input_from_stdin": 1000, "colour_output": 300, "patch_mode_runs": 1000,
			"pipeline_reproduces_b:jd": 300, "pipeline_reproduces_b:patch": 50, "pipeline_reproduces_b:merge": 50, "pipeline_yaml": 200, "translate_runs": 120, "translate_spelling_runs": 150, "void_and_empty_pairs": 300, "unreadable_input_runs": 30, "process_environment_runs": 50, "git_diff_driver_runs": 15, "error_cases": 200},
		Assumptions: []string{
			"the CLI model (props/c14.go modelDiff / modelPatch) encodes the documented mapping: flags -> options, -f -> renderer / reader, status 0 no difference / 1 difference / 2 error",
			"-precision together with -set / -mset is a documented refusal (status 2)",
			"v1 (-v2=false) is judged against package lib with the same mapping; -setkeys without -set is list mode in v1",
		},
		NeedsCLI: true,
	}
	const pairsQ, pairsT = 3, 60
	p.Strata = append(p.Strata, mon.Stratum{
		Name: "diff-mode-all-flag-combinations",
		CLI:  true,
		N: func(t mon.Tier) int {
			k := pairsQ
			if t == mon.Thorough {
				k = pairsT
			}
			return len(cliShapes) * len(Binaries) * k
		},
		Exhaustive: always,
		Run: func(c *mon.Ctx, i int) {
			s := cliShapes[i%len(cliShapes)]
			bin := Binaries[(i/len(cliShapes))%len(Binaries)]
			pi := i / (len(cliShapes) * len(Binaries))
			r := gen.New(c.Seed, 0xC14, uint64(pi))
			a, b := c14Pair(r, []int{0, 2, 3, 4, 1}[(pi+int(c.Seed))%5])
			if s.format == "merge" {
				a, b = stripNulls(a), stripNulls(b)
			}
			c14DiffCase(c, s, bin, a, b)
		},
	})
	p.Strata = append(p.Strata, mon.Stratum{
		Name: "patch-mode-all-flag-combinations",
		CLI:  true,
		N: func(t mon.Tier) int {
			k := pairsQ
			if t == mon.Thorough {
				k = pairsT
			}
			return len(cliShapes) / 2 * len(Binaries) * k
		},
		Exhaustive: always,
		Run: func(c *mon.Ctx, i int) {
			half := len(cliShapes) / 2
			s := cliShapes[(i%half)*2] // colour is irrelevant in patch mode: every other shape
			s.color = false
			s.patchMode = true
			bin := Binaries[(i/half)%len(Binaries)]
			pi := i / (half * len(Binaries))
			r := gen.New(c.Seed, 0xC14F, uint64(pi))
			a, b := c14Pair(r, pi*5+int(c.Seed)*5) // pairs that differ, keyed
			if pi%2 == 1 {
				a, b = c14Pair(r, 4)
			}
			if s.format == "merge" {
				a, b = stripNulls(a), stripNulls(b)
			}
			if s.format == "patch" && s.arr == "" {
				a, b = gen.Pair(r, gen.PTiny)
			}
			c14PatchCase(c, s, bin, a, b)
		},
	})
	p.Strata = append(p.Strata, mon.Stratum{
		Name: "setkeys-flag-parsing",
		CLI:  true,
		N:    qt(120, 2400),
		Run: func(c *mon.Ctx, i int) {
			// -setkeys takes a comma separated list whose names are trimmed; members share "id" and are told apart by "k2"
			bin := Binaries[i%3]
			spelling := []string{"id,k2", "id, k2", " id ,k2 ", "id ,  k2"}[(i/3)%4]
			mkArr := func(flip bool) []any {
				arr := []any{}
				for j := 0; j < 3; j++ {
					v := float64(c.R.Intn(3))
					if flip && j == 1 {
						v = 9
					}
					arr = append(arr, map[string]any{"id": 1.0, "k2": []string{"x", "y", "z"}[j], "v": v})
				}
				return arr
			}
			av, bv := mkArr(false), mkArr(true)
			gen.Shuffle(c.R, bv)
			aText, bText := ref.ToJSON(av), ref.ToJSON(bv)
			c.Input("binary", bin.Name)
			c.Input("setkeys", spelling)
			c.Input("a", aText)
			c.Input("b", bText)
			c.Nontrivial(joinKey("sk", bin.Name, spelling, aText, bText))
			var want string
			var wantStatus int
			if bin.V1 {
				d := ReadJ1(aText).Diff(ReadJ1(bText), lib.SET, lib.Setkeys("id", "k2"), lib.SetPrecision(0))
				want = d.Render()
				if len(d) > 0 {
					wantStatus = 1
				}
			} else {
				d := ReadJ(aText).Diff(ReadJ(bText), jd.SET, jd.SetKeys("id", "k2"), jd.Precision(0))
				want = d.Render()
				if len(d) > 0 {
					wantStatus = 1
				}
			}
			res := RunCLI(c, bin, []string{"-set", "-setkeys", spelling, "a.json", "b.json"}, "", map[string]string{"a.json": aText, "b.json": bText})
			c.Feature("cli_runs")
			c.Feature("setkeys_spellings")
			extra := map[string]any{"status": res.Status, "stdout": res.Stdout, "stderr": res.Stderr, "model_status": wantStatus, "model_output": want}
			if res.Status != wantStatus || res.Stdout != want {
				c.Violation("-setkeys value is not parsed as a trimmed comma separated list of names", extra)
				return
			}
			// and the printed diff patches a into b
			rp := RunCLI(c, bin, []string{"-set", "-setkeys", spelling, "-p", "p.diff", "a.json"}, "", map[string]string{"p.diff": res.Stdout})
			got, err := ref.FromJSON(rp.Stdout)
			if rp.Status != 0 || err != nil || !ref.Eq(got, bv, ref.Set) {
				extra["patched"] = rp.Stdout
				c.Violation("print-then-patch with -setkeys does not reproduce b", extra)
			}
		},
	})
	p.Strata = append(p.Strata, mon.Stratum{
		Name: "stdin-equals-file",
		CLI:  true,
		N:    qt(150, 3000),
		Run: func(c *mon.Ctx, i int) {
			// metamorphic, model-free: the same bytes given as a file or on stdin must give the same run.
			// Inputs where leading / trailing white space is content: YAML block scalars (as jd's own
			// Yaml() writes multi-line strings), documents ending in several newlines, indented first lines.
			bin := Binaries[i%3]
			tails := []string{"line one\nline two\n", "x\n\n", "  indented\n", "plain", "tab\t\n"}
			mk := func(k int) map[string]any {
				return map[string]any{"a": float64(k), "list": []any{"v", gen.Pick(c.R, tails)}, "zz-last": gen.Pick(c.R, tails)}
			}
			av, bv := mk(1), mk(2)
			yaml := (i/3)%2 == 0
			var aText, bText string
			flags := []string{}
			if yaml {
				aText, bText = ReadJ(ref.ToJSON(av)).Yaml(), ReadJ(ref.ToJSON(bv)).Yaml()
				flags = append(flags, "-yaml")
			} else {
				aText, bText = ref.ToJSON(av)+"\n\n", "  "+ref.ToJSON(bv)+"\n"
				if (i/6)%3 == 2 {
					bText = "\xef\xbb\xbf" + ref.ToJSON(bv) // a byte order mark: whatever jd does with it, it must do the same for a file and for stdin
					c.Feature("bom_input")
				}
			}
			c.Input("binary", bin.Name)
			c.Input("a", aText)
			c.Input("b", bText)
			c.Nontrivial(joinKey("stdin", bin.Name, aText, bText))
			files := map[string]string{"a.in": aText, "b.in": bText}
			r1 := RunCLI(c, bin, append(append([]string{}, flags...), "a.in", "b.in"), "", files)
			r2 := RunCLI(c, bin, append(append([]string{}, flags...), "a.in"), bText, files)
			c.Feature("cli_runs")
			c.Feature("stdin_vs_file_pairs")
			if r1.Status != r2.Status || r1.Stdout != r2.Stdout {
				c.Violation("reading the second input from stdin is not equivalent to naming a file (diff mode)",
					map[string]any{"file_status": r1.Status, "stdin_status": r2.Status, "file_stdout": r1.Stdout, "stdin_stdout": r2.Stdout})
				return
			}
			if _, lerr := jd.ReadJsonString(bText); !yaml && lerr != nil {
				// the library rejects this text: so must the CLI, in both forms
				if r1.Status != 2 {
					c.Violation(fmt.Sprintf("the library rejects the second input but the CLI exited %d", r1.Status), map[string]any{"stdout": r1.Stdout, "stderr": r1.Stderr})
				}
				return
			}
			if r1.Status > 1 {
				c.Violation(fmt.Sprintf("diff of two valid documents exited %d", r1.Status), map[string]any{"stderr": r1.Stderr})
				return
			}
			// patch mode: the diff just printed, applied to a given as file / on stdin
			files["p.in"] = r1.Stdout
			p1 := RunCLI(c, bin, append(append([]string{}, flags...), "-p", "p.in", "a.in"), "", files)
			p2 := RunCLI(c, bin, append(append([]string{}, flags...), "-p", "p.in"), aText, files)
			if p1.Status != p2.Status || p1.Stdout != p2.Stdout {
				c.Violation("reading the document from stdin is not equivalent to naming a file (patch mode)",
					map[string]any{"file_status": p1.Status, "stdin_status": p2.Status, "file_stdout": p1.Stdout, "stdin_stdout": p2.Stdout})
				return
			}
			if p1.Status != 0 {
				c.Violation("jd -p rejected the diff the same binary printed", map[string]any{"stderr": p1.Stderr, "diff": r1.Stdout})
				return
			}
			var back any
			var err error
			if yaml {
				var Y jd.JsonNode
				if Y, err = jd.ReadYamlString(p1.Stdout); err == nil {
					back = Plain(Y)
				}
			} else {
				back, err = ref.FromJSON(p1.Stdout)
			}
			if err != nil || !ref.Eq(back, bv, ref.List) {
				c.Violation("print-then-patch does not reproduce b (content with significant trailing white space)", map[string]any{"patched": p1.Stdout, "b": ref.ToJSON(bv)})
			}
		},
	})
	unreadable := [][]string{
		{"missing.json", "b.json"}, {"a.json", "missing.json"}, {".", "b.json"}, {"a.json", "."},
		{"-p", "missing.diff", "a.json"}, {"-p", "p.diff", "missing.json"}, {"-p", "p.diff", "."},
		{"-t", "jd2patch", "missing.diff"}, {"-t", "json2yaml", "."}, {"-f", "patch", "a.json", "missing.json"}, {"-yaml", "missing.yaml", "b.json"},
		{"-git-diff-driver", "path", "missing.json", "oldhex", "100644", "b.json", "newhex", "100644"},
	}
	p.Strata = append(p.Strata, mon.Stratum{
		Name:       "unreadable-inputs",
		CLI:        true,
		N:          n(len(unreadable) * 3),
		Exhaustive: always,
		Run: func(c *mon.Ctx, i int) {
			// an input that cannot be read (missing file, a directory) is an error: status 2, a message, no output
			bin := Binaries[i%3]
			args := unreadable[i/3]
			c.Input("binary", bin.Name)
			c.Input("argv", fmt.Sprint(args))
			c.Feature("unreadable_input_runs")
			c.Nontrivial(joinKey("unreadable", bin.Name, fmt.Sprint(args)))
			res := RunCLI(c, bin, args, "", map[string]string{"a.json": `{"a":1}`, "b.json": `{"a":2}`, "p.diff": "@ [\"a\"]\n- 1\n+ 2\n"})
			c.Feature("cli_runs")
			extra := map[string]any{"status": res.Status, "stdout": res.Stdout, "stderr": res.Stderr}
			if HasCrashMarkers(res.Stderr) {
				c.Violation("the CLI crashed", extra)
				return
			}
			if res.Status != 2 || strings.TrimSpace(res.Stdout) != "" || strings.TrimSpace(res.Stderr) == "" {
				c.Violation(fmt.Sprintf("an unreadable input must end with status 2, a message and no output; got status %d", res.Status), extra)
			}
			c.Feature("error_cases")
		},
	})
	p.Strata = append(p.Strata, mon.Stratum{
		Name:       "process-environment",
		CLI:        true,
		N:          n(3 * 3 * 12),
		Exhaustive: always,
		Run: func(c *mon.Ctx, i int) {
			// what the binaries print must depend on the flags and the CONTENT of the inputs only: not on what
			// standard output is connected to, not on whether two arguments name one file, not on how a file
			// argument is spelled (/dev/stdin), and surplus arguments are a usage error
			bin := Binaries[i%3]
			f := []string{"", "patch", "merge"}[(i/3)%3]
			kind := (i / 9) % 12
			aT, bT := `{"a":[1,2],"s":"x"}`, `{"a":[1,3],"s":"<y>"}`
			var fl []string
			if f != "" {
				fl = []string{"-f", f}
			}
			c.Input("binary", bin.Name)
			c.Input("format", f)
			ref0 := RunCLI(c, bin, append(append([]string{}, fl...), "a.json", "b.json"), "", map[string]string{"a.json": aT, "b.json": bT})
			if ref0.Status != 1 {
				c.Violation(fmt.Sprintf("reference run exited %d", ref0.Status), map[string]any{"stderr": ref0.Stderr})
				return
			}
			c.Feature("process_environment_runs")
			c.Nontrivial(joinKey("env", bin.Name, f, fmt.Sprint(kind)))
			switch kind {
			case 0: // -o FILE while stdout is a character device
				os.Remove(filepath.Join(c.WorkDir, "out.txt"))
				r := RunCLIDevNull(c, bin, append(append([]string{"-o", "out.txt"}, fl...), "a.json", "b.json"), "", nil)
				got, _ := readOut(c, "out.txt")
				if r.Status != 1 || got != ref0.Stdout {
					c.Violation("-o FILE with standard output on /dev/null writes other bytes than the same run prints on a pipe", map[string]any{"file": got, "pipe": ref0.Stdout, "status": r.Status})
				}
			case 1: // both arguments name one file
				same := RunCLI(c, bin, append(append([]string{}, fl...), "a.json", "./a.json"), "", nil)
				copy2 := RunCLI(c, bin, append(append([]string{}, fl...), "a.json", "a2.json"), "", map[string]string{"a2.json": aT})
				if same.Status != copy2.Status || same.Stdout != copy2.Stdout {
					c.Violation("comparing a file with itself differs from comparing it with a byte-identical copy", map[string]any{"same_file": fmt.Sprint(same.Status, same.Stdout), "copy": fmt.Sprint(copy2.Status, copy2.Stdout)})
				}
			case 2: // an unparsable file against itself is still an error
				bad := RunCLI(c, bin, append(append([]string{}, fl...), "bad.json", "bad.json"), "", map[string]string{"bad.json": `{"a":`})
				if bad.Status != 2 {
					c.Violation(fmt.Sprintf("an unparsable file compared with itself exits %d, not 2", bad.Status), map[string]any{"stdout": bad.Stdout, "stderr": bad.Stderr})
				}
			case 3: // -o with both arguments naming one file still writes the file
				os.Remove(filepath.Join(c.WorkDir, "out.txt"))
				r := RunCLI(c, bin, append(append([]string{"-o", "out.txt"}, fl...), "a.json", "a.json"), "", nil)
				want := RunCLI(c, bin, append(append([]string{}, fl...), "a.json", "a2.json"), "", map[string]string{"a2.json": aT})
				got, ok := readOut(c, "out.txt")
				if r.Status != 0 || !ok || got != want.Stdout {
					c.Violation("-o FILE is not written (or differs) when both inputs are the same file", map[string]any{"status": r.Status, "file_exists": ok, "file": got, "want": want.Stdout})
				}
			case 4: // a surplus positional argument (e.g. a flag after the file names) is a usage error
				r := RunCLI(c, bin, append(append([]string{}, fl...), "a.json", "b.json", "-set"), "", nil)
				r2 := RunCLI(c, bin, append(append([]string{"-p"}, fl...), "p.diff", "a.json", "extra.json"), "", map[string]string{"p.diff": "@ [\"s\"]\n- \"x\"\n+ \"z\"\n", "extra.json": "1"})
				if r.Status != 2 || r2.Status != 2 {
					c.Violation(fmt.Sprintf("surplus arguments are accepted (status %d / %d): an option written after the file names is silently ignored", r.Status, r2.Status), map[string]any{"stdout": r.Stdout, "stdout_p": r2.Stdout})
				}
			case 5: // /dev/stdin as a FILE argument reads what the one-argument form reads
				r := RunCLI(c, bin, append(append([]string{}, fl...), "a.json", "/dev/stdin"), bT, nil)
				if r.Status != ref0.Status || r.Stdout != ref0.Stdout {
					c.Violation("naming /dev/stdin as FILE2 gives another result than naming the file", map[string]any{"dev_stdin": fmt.Sprint(r.Status, r.Stdout, r.Stderr), "file": fmt.Sprint(ref0.Status, ref0.Stdout)})
				}
			case 6: // an -o target that cannot be written is an error (finding F36), whatever the inputs
				os.MkdirAll(filepath.Join(c.WorkDir, "adir"), 0o755)
				for _, tgt := range []string{"adir", "no/such/dir/out.txt"} {
					for _, second := range []string{"b.json", "a2.json"} {
						r := RunCLI(c, bin, append(append([]string{"-o", tgt}, fl...), "a.json", second), "", map[string]string{"a2.json": aT})
						if r.Status != 2 || r.Stdout != "" {
							c.Violation(fmt.Sprintf("-o %s cannot be written, yet the run exits %d", tgt, r.Status), map[string]any{"second_input": second, "stdout": r.Stdout, "stderr": r.Stderr})
							return
						}
					}
				}
				if f == "" {
					rp := RunCLI(c, bin, []string{"-o", "adir", "-p", "p.diff", "a.json"}, "", map[string]string{"p.diff": ref0.Stdout})
					rt := RunCLI(c, bin, []string{"-o", "adir", "-t", "json2yaml", "a.json"}, "", nil)
					if rp.Status != 2 || rt.Status != 2 {
						c.Violation(fmt.Sprintf("-o onto a directory in patch / translate mode exits %d / %d, not 2", rp.Status, rt.Status), nil)
					}
				}
			case 7: // boolean flags mean their VALUE: -set=false is no -set, --set is -set, the last occurrence wins
				aS, bS := `{"a":[1,2,2]}`, `{"a":[2,1]}`
				run := func(flags ...string) string {
					r := RunCLI(c, bin, append(append(append([]string{}, flags...), fl...), "sa.json", "sb.json"), "", map[string]string{"sa.json": aS, "sb.json": bS})
					return fmt.Sprint(r.Status) + "|" + r.Stdout
				}
				plain, set, mset := run(), run("-set"), run("-mset")
				for name, pair := range map[string][2]string{"-set=false": {run("-set=false"), plain}, "--set": {run("--set"), set}, "-set -set=false": {run("-set", "-set=false"), plain},
					"-mset=false": {run("-mset=false"), plain}, "--mset=true": {run("--mset=true"), mset}, "-set=false -mset": {run("-set=false", "-mset"), mset}, "-yaml=false": {run("-yaml=false"), plain}, "-color=false": {run("-color=false"), plain}} {
					if pair[0] != pair[1] {
						c.Violation("the flag spelling "+name+" does not mean what its value says", map[string]any{"got": pair[0], "want": pair[1]})
						return
					}
				}
			case 8: // a format jd does not know is refused in every mode
				for _, bad := range []string{"jdd", "json", "MERGE", "yaml", "Patch"} {
					r := RunCLI(c, bin, []string{"-f", bad, "a.json", "b.json"}, "", nil)
					rp := RunCLI(c, bin, []string{"-p", "-f", bad, "p.diff", "a.json"}, "", map[string]string{"p.diff": "@ [\"s\"]\n- \"x\"\n+ \"z\"\n"})
					if r.Status != 2 || rp.Status != 2 || r.Stdout != "" || rp.Stdout != "" {
						c.Violation(fmt.Sprintf("-f %s is accepted (diff mode status %d, patch mode status %d)", bad, r.Status, rp.Status), map[string]any{"stdout": r.Stdout, "stdout_p": rp.Stdout})
						return
					}
				}
			case 9: // one document per input: text after a complete JSON value is an error, not ignored
				for name, text := range map[string]string{"two documents": aT + " " + bT, "NDJSON": aT + "\n" + bT + "\n", "trailing word": aT + " trailing", "stray bracket": aT + "]"} {
					r := RunCLI(c, bin, append(append([]string{}, fl...), "a.json", "g.json"), "", map[string]string{"g.json": text})
					r2 := RunCLI(c, bin, append(append([]string{}, fl...), "a.json"), text, nil)
					if r.Status != 2 || r2.Status != 2 {
						c.Violation(fmt.Sprintf("an input holding %s is accepted (file: status %d, stdin: status %d)", name, r.Status, r2.Status), map[string]any{"stdout": r.Stdout})
						return
					}
				}
				if f == "patch" {
					r := RunCLI(c, bin, []string{"-p", "-f", "patch", "p.json", "a.json"}, "", map[string]string{"p.json": ref0.Stdout + " []"})
					if r.Status != 2 {
						c.Violation(fmt.Sprintf("a JSON Patch text followed by a second value is accepted in patch mode (status %d)", r.Status), map[string]any{"stdout": r.Stdout})
					}
				}
				if f == "" {
					r := RunCLI(c, bin, []string{"-p", "p.diff", "a.json"}, "", map[string]string{"p.diff": "@ [\"s\"]\n- \"x\"\n+ \"z\" \"q\"\n"})
					if r.Status != 2 {
						c.Violation(fmt.Sprintf("a diff line holding two values is accepted (status %d)", r.Status), map[string]any{"stdout": r.Stdout})
					}
				}
			case 10: // CR LF line ends and blank lines in a diff text: a result or an error, never a crash
				crlf := strings.ReplaceAll(ref0.Stdout, "\n", "\r\n")
				for _, text := range []string{crlf, crlf + "\r\n", "\r\n" + crlf, strings.Replace(crlf, "\r\n", "\r\n\r\n", 1), "\r\n"} {
					r := RunCLI(c, bin, append(append([]string{"-p"}, fl...), "p.txt", "a.json"), "", map[string]string{"p.txt": text})
					if HasCrashMarkers(r.Stderr) || r.Status < 0 || r.Status > 2 {
						c.Violation("a patch text with CR LF line ends crashes the binary", map[string]any{"text": text, "stderr": r.Stderr, "status": r.Status})
						return
					}
				}
			default: // bytes that are not UTF-8 text at all (UTF-16 with a byte order mark, odd length, NUL)
				for _, blob := range []string{"\xff\xfe{\x00}", "\xff\xfe{\x00}\x00", "\xfe\xff\x00{\x00}", "\x00", "{\"a\":\x00}", "\xef\xbb\xbf\xef\xbb\xbf{}"} {
					for _, args := range [][]string{append(append([]string{}, fl...), "a.json", "blob.bin"), {"-p", "blob.bin", "a.json"}, {"-t", "json2yaml", "blob.bin"}} {
						r := RunCLI(c, bin, args, "", map[string]string{"blob.bin": blob})
						if HasCrashMarkers(r.Stderr) || r.Status < 0 || r.Status > 2 {
							c.Violation("an input that is not UTF-8 text crashes the binary", map[string]any{"blob": fmt.Sprintf("%q", blob), "argv": fmt.Sprint(args), "stderr": r.Stderr, "status": r.Status})
							return
						}
					}
				}
			}
		},
	})
	p.Strata = append(p.Strata, mon.Stratum{
		Name:       "void-and-empty-sides",
		CLI:        true,
		N:          n(len(emptyish) * len(emptyish) * 3 * 3),
		Exhaustive: always,
		Run: func(c *mon.Ctx, i int) {
			// every ordered pair of empty-ish documents (the empty file, {}, [], "", null, 0, [[]], {"a":{}})
			// x formats jd / patch / merge x the three binaries, diff mode and the -p pipeline, file and stdin
			ne := len(emptyish)
			x, y := emptyish[i%ne], emptyish[(i/ne)%ne]
			f := []string{"", "patch", "merge"}[(i/(ne*ne))%3]
			bin := Binaries[(i/(ne*ne*3))%3]
			if f == "merge" && (ref.HasNull(x) || ref.HasNull(y)) {
				c.Skip("merge mode is for null-free documents")
				return
			}
			c.Feature("void_and_empty_pairs")
			s := cliShape{format: f, stdin: i%2 == 1}
			c14DiffCase(c, s, bin, x, y)
			c14PatchCase(c, s, bin, x, y)
		},
	})
	p.Strata = append(p.Strata, mon.Stratum{
		Name:       "translate-json-yaml-spellings",
		CLI:        true,
		N:          n(len(jsonSpellings)*3 + len(yamlSpellings)*3),
		Exhaustive: always,
		Run: func(c *mon.Ctx, i int) {
			// -t json2yaml / yaml2json on legal but unusual spellings: the binaries print what the
			// library's reader for THAT format followed by the other renderer gives
			bin := Binaries[i%3]
			k := i / 3
			mode, in := "json2yaml", ""
			if k < len(jsonSpellings) {
				in = jsonSpellings[k]
			} else {
				mode, in = "yaml2json", yamlSpellings[k-len(jsonSpellings)]
			}
			c.Input("binary", bin.Name)
			c.Input("translate", mode)
			c.Input("text", in)
			c.Feature("translate_spelling_runs")
			c.Nontrivial(joinKey("spell", bin.Name, mode, in))
			want, st := "", 0
			if pan := mon.Safe(func() {
				switch {
				case bin.V1 && mode == "json2yaml":
					n, err := lib.ReadJsonString(in)
					if err != nil {
						st = 2
					} else {
						want = n.Yaml()
					}
				case bin.V1:
					n, err := lib.ReadYamlString(in)
					if err != nil {
						st = 2
					} else {
						want = n.Json()
					}
				case mode == "json2yaml":
					n, err := jd.ReadJsonString(in)
					if err != nil {
						st = 2
					} else {
						want = n.Yaml()
					}
				default:
					n, err := jd.ReadYamlString(in)
					if err != nil {
						st = 2
					} else {
						want = n.Json()
					}
				}
			}); pan != "" {
				c.Skip("the library panics on this text (C13 owns crashes)")
				return
			}
			for variant := 0; variant < 3; variant++ {
				viaStdin, toFile := variant == 1, variant == 2
				args, stdin, files := []string{"-t", mode, "in.txt"}, "", map[string]string{"in.txt": in}
				if viaStdin {
					args, stdin, files = []string{"-t", mode}, in, nil
				}
				if toFile {
					args = []string{"-o", "out.txt", "-t", mode, "in.txt"}
					os.Remove(filepath.Join(c.WorkDir, "out.txt"))
				}
				res := RunCLI(c, bin, args, stdin, files)
				if toFile && res.Status == 0 {
					f, ok := readOut(c, "out.txt")
					if !ok || res.Stdout != "" {
						c.Violation("-o FILE in translate mode: file missing or output also on stdout", map[string]any{"argv": fmt.Sprint(args), "stdout": res.Stdout, "stderr": res.Stderr})
						return
					}
					res.Stdout = f
					c.Feature("translate_with_-o")
				}
				c.Feature("cli_runs")
				extra := map[string]any{"argv": fmt.Sprint(args), "status": res.Status, "stdout": res.Stdout, "stderr": res.Stderr, "model_status": st, "model_output": want}
				if HasCrashMarkers(res.Stderr) {
					c.Violation("the CLI crashed", extra)
					return
				}
				if res.Status != st {
					c.Violation(fmt.Sprintf("-t %s: exit status %d, the library reads and renders this text with status %d", mode, res.Status, st), extra)
					return
				}
				if st == 0 && strings.TrimRight(res.Stdout, "\n") != strings.TrimRight(want, "\n") {
					c.Violation("-t "+mode+": output differs from what the library renders", extra)
					return
				}
			}
		},
	})
	p.Strata = append(p.Strata, mon.Stratum{
		Name: "translate-gitdriver-errors",
		CLI:  true,
		N:    qt(400, 6000),
		Run: func(c *mon.Ctx, i int) {
			bin := Binaries[i%3]
			a, b := gen.Pair(c.R, gen.PDefault.With(func(p *gen.Profile) { p.Scalars = withoutNull(p.Scalars) }))
			aText, bText := ref.ToJSON(a), ref.ToJSON(b)
			c.Input("a", aText)
			c.Input("b", bText)
			c.Input("binary", bin.Name)
			c.Nontrivial(joinKey("t", fmt.Sprint(i%3, (i/3)%10), aText, bText))
			check := func(args []string, stdin string, files map[string]string, wantStatus int, wantOut string, what string) bool {
				res := RunCLI(c, bin, args, stdin, files)
				c.Feature("cli_runs")
				extra := map[string]any{"argv": fmt.Sprint(args), "status": res.Status, "stdout": res.Stdout, "stderr": res.Stderr, "model_status": wantStatus, "model_output": wantOut}
				if HasCrashMarkers(res.Stderr) {
					c.Violation("the CLI crashed", extra)
					return false
				}
				if res.Status != wantStatus {
					c.Violation(fmt.Sprintf("%s: exit status %d, the documented contract gives %d", what, res.Status, wantStatus), extra)
					return false
				}
				if wantStatus != 2 && res.Stdout != wantOut {
					c.Violation(what+": output differs from what the library renders", extra)
					return false
				}
				if wantStatus == 2 {
					c.Feature("error_cases")
				}
				c.Feature(fmt.Sprintf("status_%d", res.Status))
				return true
			}
			switch (i / 3) % 10 {
			case 0, 1, 2, 3: // translations
				c.Feature("translate_runs")
				var in, want, mode string
				st := 0
				if bin.V1 {
					d := ReadJ1(aText).Diff(ReadJ1(bText))
					dm := ReadJ1(aText).Diff(ReadJ1(bText), lib.MERGE)
					switch (i / 3) % 4 {
					case 0:
						mode, in = "jd2patch", d.Render()
						rd, _ := lib.ReadDiffString(in)
						w, err := rd.RenderPatch()
						want = w
						if err != nil {
							st = 2
						}
					case 1:
						mode = "patch2jd"
						t, err := d.RenderPatch()
						if err != nil {
							c.Skip("no patch text")
							return
						}
						in = t
						rd, err := lib.ReadPatchString(in)
						if err != nil {
							st = 2
						} else {
							want = rd.Render()
						}
					case 2:
						mode, in = "jd2merge", dm.Render()
						rd, _ := lib.ReadDiffString(in)
						w, err := rd.RenderMerge()
						want = w
						if err != nil {
							st = 2
						}
					default:
						mode = "json2yaml"
						in = aText
						want = ReadJ1(aText).Yaml()
					}
				} else {
					d := ReadJ(aText).Diff(ReadJ(bText))
					dm := ReadJ(aText).Diff(ReadJ(bText), jd.MERGE)
					switch (i / 3) % 4 {
					case 0:
						mode, in = "jd2patch", d.Render()
						rd, _ := jd.ReadDiffString(in)
						w, err := rd.RenderPatch()
						want = w
						if err != nil {
							st = 2
						}
					case 1:
						mode = "patch2jd"
						t, err := d.RenderPatch()
						if err != nil {
							c.Skip("no patch text")
							return
						}
						in = t
						rd, err := jd.ReadPatchString(in)
						if err != nil {
							st = 2
						} else {
							want = rd.Render()
						}
					case 2:
						mode, in = "jd2merge", dm.Render()
						rd, _ := jd.ReadDiffString(in)
						w, err := rd.RenderMerge()
						want = w
						if err != nil {
							st = 2
						}
					default:
						mode = "merge2jd"
						t, err := dm.RenderMerge()
						if err != nil {
							c.Skip("no merge text")
							return
						}
						in = t
						rd, err := jd.ReadMergeString(in)
						if err != nil {
							st = 2
						} else {
							want = rd.Render()
						}
					}
				}
				c.Input("translate", mode)
				if !check([]string{"-t", mode, "in.txt"}, "", map[string]string{"in.txt": in}, st, want, "-t "+mode) {
					return
				}
				check([]string{"-t", mode}, in, nil, st, want, "-t "+mode+" from stdin")
			case 4: // git diff driver (v2 library in both binaries)
				if bin.V1 {
					c.Skip("git diff driver always uses the v2 library")
					return
				}
				c.Feature("git_diff_driver_runs")
				// the driver honours the same options as diff mode (documents whose arrays are permuted / duplicated)
				ga := []any{1.0, 2.0, 2.0, map[string]any{"id": 1.0, "v": 1.0}}
				gb := []any{2.0, map[string]any{"id": 1.0, "v": 1.04}, 1.0}
				gaT, gbT := ref.ToJSON(ga), ref.ToJSON(gb)
				type gd struct {
					flags []string
					opts  []jd.Option
				}
				g := []gd{{nil, []jd.Option{jd.Precision(0)}}, {[]string{"-set"}, []jd.Option{jd.SET, jd.Precision(0)}}, {[]string{"-mset"}, []jd.Option{jd.MULTISET, jd.Precision(0)}},
					{[]string{"-setkeys", "id"}, []jd.Option{jd.SetKeys("id"), jd.Precision(0)}}, {[]string{"-precision", "0.1"}, []jd.Option{jd.Precision(0.1)}}}[(i/30)%5]
				want := ReadJ(gaT).Diff(ReadJ(gbT), g.opts...).Render()
				args := append(append([]string{}, g.flags...), "-git-diff-driver", "path", "a.json", "oldhex", "100644", "b.json", "newhex", "100644")
				check(args, "", map[string]string{"a.json": gaT, "b.json": gbT}, 0, want, "-git-diff-driver "+fmt.Sprint(g.flags))
			case 5:
				if (i/30)%2 == 0 { // not i%2: the binary is chosen by i%3 and the case by (i/3)%10, so i%2 is tied to the binary
					check([]string{"missing.json", "b.json"}, "", map[string]string{"b.json": bText}, 2, "", "missing file")
					return
				}
				// in-place use: -o names one of the inputs. The inputs are read before anything is written.
				c.Feature("in_place_-o")
				ia := map[string]any{"html": "<b>&amp;</b>", "esc": "\\u003c literal", "n": 1.0}
				ib := map[string]any{"html": "<i>&</i>", "esc": "\\u003e literal", "n": 2.0}
				iaT, ibT := ref.ToJSON(ia), ref.ToJSON(ib)
				var pText, want string
				if bin.V1 {
					pText = ReadJ1(iaT).Diff(ReadJ1(ibT)).Render()
					want = ReadJ1(ibT).Json()
				} else {
					pText = ReadJ(iaT).Diff(ReadJ(ibT)).Render()
					want = ReadJ(ibT).Json()
				}
				res := RunCLI(c, bin, []string{"-p", "-o", "doc.json", "p.diff", "doc.json"}, "", map[string]string{"p.diff": pText, "doc.json": iaT})
				c.Feature("cli_runs")
				got, _ := readOut(c, "doc.json")
				if res.Status != 0 || res.Stdout != "" || got != want {
					c.Violation("jd -p -o DOC patch DOC (in place) does not leave the patched document in DOC", map[string]any{"status": res.Status, "stderr": res.Stderr, "file": got, "want": want})
					return
				}
				// the same documents through -f patch / -f merge on stdout: bytes equal to the library rendering
				for _, f := range []string{"patch", "merge"} {
					var w string
					if bin.V1 {
						if f == "patch" {
							w, _ = ReadJ1(iaT).Diff(ReadJ1(ibT), lib.SetPrecision(0)).RenderPatch()
						} else {
							w, _ = ReadJ1(iaT).Diff(ReadJ1(ibT), lib.MERGE, lib.SetPrecision(0)).RenderMerge()
						}
					} else {
						if f == "patch" {
							w, _ = ReadJ(iaT).Diff(ReadJ(ibT), jd.Precision(0)).RenderPatch()
						} else {
							w, _ = ReadJ(iaT).Diff(ReadJ(ibT), jd.MERGE, jd.Precision(0)).RenderMerge()
						}
					}
					check([]string{"-f", f, "a.json", "b.json"}, "", map[string]string{"a.json": iaT, "b.json": ibT}, 1, w, "-f "+f+" on strings with <, & and a literal \\u003c")
				}
			case 6:
				check([]string{"-f", "nosuchformat", "a.json", "b.json"}, "", map[string]string{"a.json": aText, "b.json": bText}, 2, "", "bad format name")
			case 7:
				if i%2 == 0 {
					check([]string{"a.json", "b.json"}, "", map[string]string{"a.json": aText + "}", "b.json": bText}, 2, "", "bad JSON")
				} else {
					check([]string{"a.json", "b.json"}, "", map[string]string{"a.json": aText + "}", "b.json": aText + "}"}, 2, "", "the same bad JSON on both sides")
				}
			case 8:
				check([]string{"-p", "-t", "jd2patch", "a.json", "b.json"}, "", map[string]string{"a.json": aText, "b.json": bText}, 2, "", "-p with -t")
			default:
				check([]string{"a.json", "b.json", "c.json"}, "", map[string]string{"a.json": aText, "b.json": bText, "c.json": "1"}, 2, "", "wrong arity")
			}
		},
	})
	mon.Register(p)
}

func stripNulls(v any) any {
	switch t := v.(type) {
	case nil:
		return "was-null"
	case []any:
		for i := range t {
			t[i] = stripNulls(t[i])
		}
	case map[string]any:
		for k := range t {
			t[k] = stripNulls(t[k])
		}
	}
	return v
}
