package ref

import (
	"fmt"
	"sort"
)

type Kind int

const (
	KKey Kind = iota
	KIndex
	KSet
	KMultiset
	KSetKeys
	KMultisetKeys
)

type PathEl struct {
	Kind  Kind
	Key   string
	Index int
	Keys  map[string]any
}

func (e PathEl) String() string {
	switch e.Kind {
	case KKey:
		return ToJSON(e.Key)
	case KIndex:
		return fmt.Sprint(e.Index)
	case KSet:
		return "{}"
	case KMultiset:
		return "[]"
	case KSetKeys:
		return ToJSON(map[string]any(e.Keys))
	default:
		return "[" + ToJSON(map[string]any(e.Keys)) + "]"
	}
}

// Hunk mirrors the public fields of jd's DiffElement in plain values.
type Hunk struct {
	Merge  bool
	Path   []PathEl
	Before []any
	Remove []any
	Add    []any
	After  []any
}

func (h Hunk) PathString() string {
	s := "["
	for i, e := range h.Path {
		if i > 0 {
			s += ","
		}
		s += e.String()
	}
	return s + "]"
}

// String renders the hunk in (approximately) native jd syntax, for reports.
func (h Hunk) String() string {
	s := ""
	if h.Merge {
		s += "^ {\"Merge\":true}\n"
	}
	s += "@ " + h.PathString() + "\n"
	for _, b := range h.Before {
		if IsVoid(b) {
			s += "[\n"
		} else {
			s += "  " + ToJSON(b) + "\n"
		}
	}
	for _, r := range h.Remove {
		s += "- " + ToJSON(r) + "\n"
	}
	for _, a := range h.Add {
		if IsVoid(a) {
			s += "+\n"
		} else {
			s += "+ " + ToJSON(a) + "\n"
		}
	}
	for _, a := range h.After {
		if IsVoid(a) {
			s += "]\n"
		} else {
			s += "  " + ToJSON(a) + "\n"
		}
	}
	return s
}

func HunksString(hs []Hunk) string {
	s := ""
	for _, h := range hs {
		s += h.String()
	}
	return s
}

// Dev switches on documented deviations of jd from the specification
// (deviation models of open known findings).
type Dev struct {
	// F4: a failing nested patch inside a keyed set member is a silent no-op.
	KeyedNestedFailureNoop bool
}

type Fail struct {
	Hunk int
	What string
	// InKeyedMember is set when the failing expectation was evaluated
	// strictly inside a matched keyed member (classifier for F4).
	InKeyedMember bool
}

func (f *Fail) Error() string { return fmt.Sprintf("hunk %d: %s", f.Hunk, f.What) }

type perr struct {
	what    string
	inKeyed bool
}

func (e *perr) Error() string { return e.what }

func errf(f string, a ...any) error { return &perr{what: fmt.Sprintf(f, a...)} }

// RefPatch is the reference interpreter of hunk semantics. It never
// modifies doc. Stats, when non-nil, is told which clause each hunk used.
func RefPatch(doc any, hunks []Hunk, dev Dev) (any, error) {
	doc = Clone(doc)
	for i, h := range hunks {
		var err error
		if h.Merge {
			doc, err = mergeAt(doc, h.Path, h)
		} else {
			doc, err = strictAt(doc, h.Path, h, dev)
		}
		if err != nil {
			f := &Fail{Hunk: i, What: err.Error()}
			if pe, ok := err.(*perr); ok {
				f.InKeyedMember = pe.inKeyed
			}
			return nil, f
		}
	}
	return doc, nil
}

func single(vs []any) any {
	if len(vs) == 0 {
		return Void{}
	}
	return vs[0]
}

func leafReplace(node any, h Hunk) (any, error) {
	if len(h.Remove) > 1 || len(h.Add) > 1 {
		return nil, errf("multiple values at a non-array path")
	}
	old := single(h.Remove)
	if !Eq(node, old, List) {
		return nil, errf("expected %s, found %s", ToJSON(old), ToJSON(node))
	}
	return Clone(single(h.Add)), nil
}

func strictAt(node any, path []PathEl, h Hunk, dev Dev) (any, error) {
	switch n := node.(type) {
	case map[string]any:
		if len(path) == 0 {
			return leafReplace(node, h)
		}
		el, rest := path[0], path[1:]
		if el.Kind != KKey {
			return nil, errf("path element %s on an object", el)
		}
		child, ok := n[el.Key]
		if !ok {
			child = Void{}
		}
		r, err := strictAt(child, rest, h, dev)
		if err != nil {
			return nil, err
		}
		if IsVoid(r) {
			delete(n, el.Key)
		} else {
			n[el.Key] = r
		}
		return n, nil
	case []any:
		if len(path) == 0 {
			return leafReplace(node, h)
		}
		el, rest := path[0], path[1:]
		switch el.Kind {
		case KIndex:
			return listAt(n, el.Index, rest, h, dev)
		case KSet:
			if len(rest) > 0 {
				return nil, errf("path continues after {}")
			}
			return setHunk(n, h)
		case KMultiset:
			if len(rest) > 0 {
				return nil, errf("path continues after []")
			}
			return bagHunk(n, h)
		case KSetKeys:
			if len(rest) == 0 {
				return nil, errf("keyed path element without a nested path")
			}
			return keyedAt(n, el.Keys, rest, h, dev)
		default:
			return nil, errf("path element %s on an array", el)
		}
	default:
		if len(path) > 0 {
			return nil, errf("path element %s on %s: expected a collection", path[0], ToJSON(node))
		}
		return leafReplace(node, h)
	}
}

func listAt(l []any, i int, rest []PathEl, h Hunk, dev Dev) (any, error) {
	if len(rest) > 0 {
		if i < 0 || i > len(l)-1 {
			return nil, errf("index %d out of bounds (len %d)", i, len(l))
		}
		r, err := strictAt(l[i], rest, h, dev)
		if err != nil {
			return nil, err
		}
		l[i] = r
		return l, nil
	}
	if i == -1 {
		if len(h.Remove) > 0 {
			return nil, errf("append index with removals")
		}
		return append(l, cloneAll(h.Add)...), nil
	}
	if i < 0 || i > len(l) {
		return nil, errf("index %d out of bounds (len %d)", i, len(l))
	}
	for j, b := range h.Before {
		bi := i - (len(h.Before) - j)
		switch {
		case bi < 0:
			if bi == -1 && IsVoid(b) {
				continue
			}
			return nil, errf("before context %s out of bounds at %d", ToJSON(b), bi)
		case bi >= len(l):
			return nil, errf("before context index %d past the end", bi)
		case !Eq(b, l[bi], List):
			return nil, errf("before context: expected %s at %d, found %s", ToJSON(b), bi, ToJSON(l[bi]))
		}
	}
	for _, r := range h.Remove {
		if i > len(l)-1 {
			return nil, errf("remove %s at %d: past the end", ToJSON(r), i)
		}
		if !Eq(l[i], r, List) {
			return nil, errf("remove: expected %s at %d, found %s", ToJSON(r), i, ToJSON(l[i]))
		}
		l = append(l[:i:i], l[i+1:]...)
	}
	for j, a := range h.After {
		ai := i + j
		if ai > len(l)-1 {
			if ai == len(l) && IsVoid(a) {
				continue
			}
			return nil, errf("after context %s out of bounds at %d", ToJSON(a), ai)
		}
		if !Eq(a, l[ai], List) {
			return nil, errf("after context: expected %s at %d, found %s", ToJSON(a), ai, ToJSON(l[ai]))
		}
	}
	out := make([]any, 0, len(l)+len(h.Add))
	out = append(out, l[:i]...)
	out = append(out, cloneAll(h.Add)...)
	out = append(out, l[i:]...)
	return out, nil
}

func cloneAll(vs []any) []any {
	c := make([]any, len(vs))
	for i, v := range vs {
		c[i] = Clone(v)
	}
	return c
}

func setHunk(l []any, h Hunk) (any, error) {
	m := map[string]any{}
	for _, e := range l {
		m[Canon(e, Set)] = e
	}
	for _, r := range h.Remove {
		c := Canon(r, Set)
		if _, ok := m[c]; !ok {
			return nil, errf("set remove: %s not present", ToJSON(r))
		}
		delete(m, c)
	}
	for _, a := range h.Add {
		m[Canon(a, Set)] = Clone(a)
	}
	cs := make([]string, 0, len(m))
	for c := range m {
		cs = append(cs, c)
	}
	sort.Strings(cs)
	out := make([]any, 0, len(m))
	for _, c := range cs {
		out = append(out, m[c])
	}
	return out, nil
}

func bagHunk(l []any, h Hunk) (any, error) {
	cnt := map[string]int{}
	val := map[string]any{}
	for _, e := range l {
		c := Canon(e, Multiset)
		cnt[c]++
		val[c] = e
	}
	for _, r := range h.Remove {
		c := Canon(r, Multiset)
		cnt[c]--
		if cnt[c] < 0 {
			return nil, errf("multiset remove: %s not present often enough", ToJSON(r))
		}
	}
	for _, a := range h.Add {
		c := Canon(a, Multiset)
		cnt[c]++
		val[c] = Clone(a)
	}
	cs := make([]string, 0, len(cnt))
	for c := range cnt {
		cs = append(cs, c)
	}
	sort.Strings(cs)
	out := []any{}
	for _, c := range cs {
		for k := 0; k < cnt[c]; k++ {
			out = append(out, Clone(val[c]))
		}
	}
	return out, nil
}

// MatchKeys reports whether member is an object whose fields named in keys
// equal the given values.
func MatchKeys(member any, keys map[string]any) bool {
	o, ok := member.(map[string]any)
	if !ok {
		return false
	}
	for k, v := range keys {
		w, ok := o[k]
		if !ok || !Eq(v, w, List) {
			return false
		}
	}
	return true
}

func keyedAt(l []any, keys map[string]any, rest []PathEl, h Hunk, dev Dev) (any, error) {
	for i, e := range l {
		if !MatchKeys(e, keys) {
			continue
		}
		saved := Clone(e)
		r, err := strictAt(e, rest, h, dev)
		if err != nil {
			if dev.KeyedNestedFailureNoop {
				l[i] = saved
				return l, nil
			}
			return nil, &perr{what: "inside keyed member " + ToJSON(map[string]any(keys)) + ": " + err.Error(), inKeyed: true}
		}
		l[i] = r
		return l, nil
	}
	return nil, errf("no member with keys %s", ToJSON(map[string]any(keys)))
}

func mergeAt(node any, path []PathEl, h Hunk) (any, error) {
	if len(path) == 0 {
		if len(h.Add) > 1 || len(h.Remove) > 1 {
			return nil, errf("merge hunk with multiple values")
		}
		if len(h.Remove) == 1 && !IsVoid(h.Remove[0]) {
			if _, isObj := node.(map[string]any); !isObj {
				return nil, errf("merge hunk with an old value")
			}
		}
		return Clone(single(h.Add)), nil
	}
	el, rest := path[0], path[1:]
	if el.Kind != KKey {
		return nil, errf("merge path element %s is not a key", el)
	}
	o, ok := node.(map[string]any)
	if !ok {
		o = map[string]any{}
	}
	child, ok := o[el.Key]
	if !ok {
		child = Void{}
	}
	r, err := mergeAt(child, rest, h)
	if err != nil {
		return nil, err
	}
	if IsVoid(r) {
		delete(o, el.Key)
	} else {
		o[el.Key] = r
	}
	return o, nil
}

// Navigate resolves a hunk path in doc. For a path ending in an index, set
// or multiset element it returns the addressed array (container=true).
// Keyed elements select the member whose key fields match.
func Navigate(doc any, path []PathEl) (v any, container bool, ok bool) {
	cur := doc
	for i, el := range path {
		last := i == len(path)-1
		switch el.Kind {
		case KKey:
			o, isObj := cur.(map[string]any)
			if !isObj {
				return nil, false, false
			}
			c, has := o[el.Key]
			if !has {
				if last {
					return Void{}, false, true
				}
				return nil, false, false
			}
			cur = c
		case KIndex:
			l, isArr := cur.([]any)
			if !isArr {
				return nil, false, false
			}
			if last {
				return l, true, true
			}
			if el.Index < 0 || el.Index >= len(l) {
				return nil, false, false
			}
			cur = l[el.Index]
		case KSet, KMultiset:
			l, isArr := cur.([]any)
			if !isArr || !last {
				return nil, false, false
			}
			return l, true, true
		case KSetKeys, KMultisetKeys:
			l, isArr := cur.([]any)
			if !isArr {
				return nil, false, false
			}
			found := false
			for _, e := range l {
				if MatchKeys(e, el.Keys) {
					cur = e
					found = true
					break
				}
			}
			if !found {
				return nil, false, false
			}
		}
	}
	return cur, false, true
}
