package ref

import (
	"encoding/json"
	"fmt"
	"strings"
)

// ---- RFC 6901 ----

// ParsePointer splits a JSON Pointer into unescaped reference tokens.
func ParsePointer(p string) ([]string, error) {
	if p == "" {
		return nil, nil
	}
	if p[0] != '/' {
		return nil, fmt.Errorf("pointer %q does not start with /", p)
	}
	parts := strings.Split(p[1:], "/")
	for i, t := range parts {
		// "~1" first, then "~0" (RFC 6901 section 4)
		for j := 0; j < len(t); j++ {
			if t[j] == '~' {
				if j+1 >= len(t) || (t[j+1] != '0' && t[j+1] != '1') {
					return nil, fmt.Errorf("pointer %q: bad escape", p)
				}
			}
		}
		t = strings.ReplaceAll(t, "~1", "/")
		t = strings.ReplaceAll(t, "~0", "~")
		parts[i] = t
	}
	return parts, nil
}

func EscapeToken(t string) string {
	t = strings.ReplaceAll(t, "~", "~0")
	return strings.ReplaceAll(t, "/", "~1")
}

// arrayIndex implements the RFC 6901 array-index grammar: 0 | [1-9][0-9]*.
func arrayIndex(t string) (int, bool) {
	if t == "" {
		return 0, false
	}
	if t == "0" {
		return 0, true
	}
	if t[0] < '1' || t[0] > '9' {
		return 0, false
	}
	n := 0
	for _, c := range t {
		if c < '0' || c > '9' {
			return 0, false
		}
		n = n*10 + int(c-'0')
		if n > 1<<40 {
			return 0, false
		}
	}
	return n, true
}

// ---- RFC 6902 (test / add / remove; everything else is an error) ----

type Op struct {
	Op       string
	Path     string
	Value    any
	HasValue bool
}

func ParsePatch(text string) ([]Op, error) {
	var raw []map[string]json.RawMessage
	if err := json.Unmarshal([]byte(text), &raw); err != nil {
		return nil, fmt.Errorf("patch is not an array of objects: %v", err)
	}
	ops := make([]Op, 0, len(raw))
	for i, r := range raw {
		var o Op
		opRaw, ok := r["op"]
		if !ok || json.Unmarshal(opRaw, &o.Op) != nil {
			return nil, fmt.Errorf("op %d: missing or non-string \"op\"", i)
		}
		pRaw, ok := r["path"]
		if !ok || json.Unmarshal(pRaw, &o.Path) != nil {
			return nil, fmt.Errorf("op %d: missing or non-string \"path\"", i)
		}
		if vRaw, ok := r["value"]; ok {
			if err := json.Unmarshal(vRaw, &o.Value); err != nil {
				return nil, fmt.Errorf("op %d: bad value", i)
			}
			o.HasValue = true
		}
		ops = append(ops, o)
	}
	return ops, nil
}

type absent struct{} // the document after `remove ""`

// Apply6902 evaluates ops on a copy of doc. One documented reading (DESIGN
// 5.9): `remove ""` makes the document absent; the only legal next op is
// `add ""`; a patch that ends with the document absent yields Void.
func Apply6902(doc any, ops []Op) (any, error) {
	var cur any = Clone(doc)
	for i, o := range ops {
		toks, err := ParsePointer(o.Path)
		if err != nil {
			return nil, fmt.Errorf("op %d: %v", i, err)
		}
		if _, gone := cur.(absent); gone && !(o.Op == "add" && len(toks) == 0) {
			return nil, fmt.Errorf("op %d: %s on an absent document", i, o.Op)
		}
		switch o.Op {
		case "test":
			if !o.HasValue {
				return nil, fmt.Errorf("op %d: test without value", i)
			}
			v, err := get(cur, toks)
			if err != nil {
				return nil, fmt.Errorf("op %d: test %q: %v", i, o.Path, err)
			}
			if !Eq(v, o.Value, List) {
				return nil, fmt.Errorf("op %d: test %q failed: found %s want %s", i, o.Path, ToJSON(v), ToJSON(o.Value))
			}
		case "remove":
			cur, err = remove(cur, toks)
			if err != nil {
				return nil, fmt.Errorf("op %d: remove %q: %v", i, o.Path, err)
			}
		case "add":
			if !o.HasValue {
				return nil, fmt.Errorf("op %d: add without value", i)
			}
			cur, err = add(cur, toks, Clone(o.Value))
			if err != nil {
				return nil, fmt.Errorf("op %d: add %q: %v", i, o.Path, err)
			}
		default:
			return nil, fmt.Errorf("op %d: unsupported op %q", i, o.Op)
		}
	}
	if _, gone := cur.(absent); gone {
		return Void{}, nil
	}
	return cur, nil
}

func get(doc any, toks []string) (any, error) {
	cur := doc
	for _, t := range toks {
		switch c := cur.(type) {
		case map[string]any:
			v, ok := c[t]
			if !ok {
				return nil, fmt.Errorf("no member %q", t)
			}
			cur = v
		case []any:
			i, ok := arrayIndex(t)
			if !ok || i >= len(c) {
				return nil, fmt.Errorf("bad array index %q (len %d)", t, len(c))
			}
			cur = c[i]
		default:
			return nil, fmt.Errorf("token %q on a scalar", t)
		}
	}
	return cur, nil
}

func remove(doc any, toks []string) (any, error) {
	if len(toks) == 0 {
		return absent{}, nil
	}
	t, rest := toks[0], toks[1:]
	switch c := doc.(type) {
	case map[string]any:
		v, ok := c[t]
		if !ok {
			return nil, fmt.Errorf("no member %q", t)
		}
		if len(rest) == 0 {
			delete(c, t)
			return c, nil
		}
		r, err := remove(v, rest)
		if err != nil {
			return nil, err
		}
		c[t] = r
		return c, nil
	case []any:
		i, ok := arrayIndex(t)
		if !ok || i >= len(c) {
			return nil, fmt.Errorf("bad array index %q (len %d)", t, len(c))
		}
		if len(rest) == 0 {
			out := make([]any, 0, len(c)-1)
			out = append(out, c[:i]...)
			return append(out, c[i+1:]...), nil
		}
		r, err := remove(c[i], rest)
		if err != nil {
			return nil, err
		}
		c[i] = r
		return c, nil
	default:
		return nil, fmt.Errorf("token %q on a scalar", t)
	}
}

func add(doc any, toks []string, v any) (any, error) {
	if len(toks) == 0 {
		return v, nil
	}
	t, rest := toks[0], toks[1:]
	switch c := doc.(type) {
	case map[string]any:
		if len(rest) == 0 {
			c[t] = v
			return c, nil
		}
		child, ok := c[t]
		if !ok {
			return nil, fmt.Errorf("no member %q", t)
		}
		r, err := add(child, rest, v)
		if err != nil {
			return nil, err
		}
		c[t] = r
		return c, nil
	case []any:
		if len(rest) == 0 {
			if t == "-" {
				return append(c, v), nil
			}
			i, ok := arrayIndex(t)
			if !ok || i > len(c) {
				return nil, fmt.Errorf("bad array index %q (len %d)", t, len(c))
			}
			out := make([]any, 0, len(c)+1)
			out = append(out, c[:i]...)
			out = append(out, v)
			return append(out, c[i:]...), nil
		}
		i, ok := arrayIndex(t)
		if !ok || i >= len(c) {
			return nil, fmt.Errorf("bad array index %q (len %d)", t, len(c))
		}
		r, err := add(c[i], rest, v)
		if err != nil {
			return nil, err
		}
		c[i] = r
		return c, nil
	default:
		return nil, fmt.Errorf("token %q on a scalar", t)
	}
}

// ---- RFC 7386 ----

// MergePatch is the pseudocode of RFC 7386 section 2, verbatim. target may
// be Void (absent); patch is a parsed JSON value.
func MergePatch(target, patch any) any {
	p, isObj := patch.(map[string]any)
	if !isObj {
		return Clone(patch)
	}
	t, ok := target.(map[string]any)
	if !ok {
		t = map[string]any{}
	} else {
		t = Clone(t).(map[string]any)
	}
	for name, value := range p {
		if value == nil {
			delete(t, name)
		} else {
			var cur any = Void{}
			if c, has := t[name]; has {
				cur = c
			}
			t[name] = MergePatch(cur, value)
		}
	}
	return t
}

// MergePatchDev is MergePatch with jd's known deviation for empty-object
// patch values (open finding F15): an empty object met anywhere below the
// root REPLACES the target value by {} (RFC: merging {} changes nothing when
// the target is an object), and an empty object at the root is a no-op
// (RFC: a non-object target becomes {}).
func MergePatchDev(target, patch any) any {
	p, isObj := patch.(map[string]any)
	if isObj && len(p) == 0 {
		return Clone(target)
	}
	return mergePatchDev(target, patch)
}

func mergePatchDev(target, patch any) any {
	p, isObj := patch.(map[string]any)
	if !isObj {
		return Clone(patch)
	}
	if len(p) == 0 {
		return map[string]any{}
	}
	t, ok := target.(map[string]any)
	if !ok {
		t = map[string]any{}
	} else {
		t = Clone(t).(map[string]any)
	}
	for name, value := range p {
		if value == nil {
			delete(t, name)
		} else {
			var cur any = Void{}
			if c, has := t[name]; has {
				cur = c
			}
			t[name] = mergePatchDev(cur, value)
		}
	}
	return t
}

// ContainsEmptyObject reports whether {} occurs anywhere in v.
func ContainsEmptyObject(v any) bool {
	switch t := v.(type) {
	case map[string]any:
		if len(t) == 0 {
			return true
		}
		for _, e := range t {
			if ContainsEmptyObject(e) {
				return true
			}
		}
	}
	return false
}
