// Package ref holds the reference models the monitors judge jd against.
// Nothing in this package imports jd; the trusted base is encoding/json,
// strconv, sort and the code below.
package ref

import (
	"bytes"
	"encoding/json"
	"fmt"
	"math"
	"sort"
	"strconv"
	"strings"
)

// Void is the empty document / absent value.
type Void struct{}

func IsVoid(v any) bool { _, ok := v.(Void); return ok }

// FromJSON parses JSON text into plain Go values; blank text is Void.
func FromJSON(s string) (any, error) {
	if strings.TrimSpace(s) == "" {
		return Void{}, nil
	}
	var v any
	dec := json.NewDecoder(strings.NewReader(s))
	if err := dec.Decode(&v); err != nil {
		return nil, err
	}
	if dec.More() {
		return nil, fmt.Errorf("trailing data")
	}
	return v, nil
}

func MustJSON(s string) any {
	v, err := FromJSON(s)
	if err != nil {
		panic(fmt.Sprintf("MustJSON(%q): %v", s, err))
	}
	return v
}

// ToJSON serialises a plain value; Void is the empty string.
func ToJSON(v any) string {
	if IsVoid(v) {
		return ""
	}
	var b bytes.Buffer
	enc := json.NewEncoder(&b)
	enc.SetEscapeHTML(false)
	if err := enc.Encode(v); err != nil {
		panic(err)
	}
	return strings.TrimSuffix(b.String(), "\n")
}

func Clone(v any) any {
	switch t := v.(type) {
	case []any:
		c := make([]any, len(t))
		for i, e := range t {
			c[i] = Clone(e)
		}
		return c
	case map[string]any:
		c := make(map[string]any, len(t))
		for k, e := range t {
			c[k] = Clone(e)
		}
		return c
	default:
		return v
	}
}

func SortedKeys(m map[string]any) []string {
	ks := make([]string, 0, len(m))
	for k := range m {
		ks = append(ks, k)
	}
	sort.Strings(ks)
	return ks
}

type Reading int

const (
	List Reading = iota
	Set
	Multiset
)

func (r Reading) String() string { return [...]string{"list", "set", "multiset"}[r] }

func numCanon(f float64) string {
	if f == 0 {
		f = 0 // -0 == 0
	}
	return strconv.FormatFloat(f, 'g', -1, 64)
}

// Canon is a canonical string of v under a reading of arrays. Every node
// carries a type tag so values of different JSON types never coincide.
func Canon(v any, r Reading) string {
	var b strings.Builder
	canon(&b, v, r)
	return b.String()
}

func canon(b *strings.Builder, v any, r Reading) {
	switch t := v.(type) {
	case Void:
		b.WriteString("z")
	case nil:
		b.WriteString("n")
	case bool:
		if t {
			b.WriteString("T")
		} else {
			b.WriteString("F")
		}
	case float64:
		b.WriteString("#")
		b.WriteString(numCanon(t))
		b.WriteString(";")
	case int:
		b.WriteString("#")
		b.WriteString(numCanon(float64(t)))
		b.WriteString(";")
	case string:
		b.WriteString("s")
		b.WriteString(strconv.Quote(t))
	case []any:
		switch r {
		case List:
			b.WriteString("[")
			for _, e := range t {
				canon(b, e, r)
				b.WriteString(",")
			}
			b.WriteString("]")
		default:
			cs := make([]string, len(t))
			for i, e := range t {
				cs[i] = Canon(e, r)
			}
			sort.Strings(cs)
			if r == Set {
				b.WriteString("S(")
				prev := ""
				for i, c := range cs {
					if i > 0 && c == prev {
						continue
					}
					b.WriteString(c)
					b.WriteString(",")
					prev = c
				}
			} else {
				b.WriteString("M(")
				for _, c := range cs {
					b.WriteString(c)
					b.WriteString(",")
				}
			}
			b.WriteString(")")
		}
	case map[string]any:
		b.WriteString("{")
		for _, k := range SortedKeys(t) {
			b.WriteString(strconv.Quote(k))
			b.WriteString(":")
			canon(b, t[k], r)
			b.WriteString(",")
		}
		b.WriteString("}")
	default:
		panic(fmt.Sprintf("canon: unsupported %T", v))
	}
}

func Eq(a, b any, r Reading) bool { return Canon(a, r) == Canon(b, r) }

// EqPrec is list-mode deep equality with |x-y| <= eps on numbers.
func EqPrec(a, b any, eps float64) bool {
	switch x := a.(type) {
	case float64:
		y, ok := b.(float64)
		return ok && math.Abs(x-y) <= eps
	case []any:
		y, ok := b.([]any)
		if !ok || len(x) != len(y) {
			return false
		}
		for i := range x {
			if !EqPrec(x[i], y[i], eps) {
				return false
			}
		}
		return true
	case map[string]any:
		y, ok := b.(map[string]any)
		if !ok || len(x) != len(y) {
			return false
		}
		for k, v := range x {
			w, ok := y[k]
			if !ok || !EqPrec(v, w, eps) {
				return false
			}
		}
		return true
	default:
		return Canon(a, List) == Canon(b, List)
	}
}

// LCSLen is the textbook DP over list-canonical forms.
func LCSLen(a, b []any) int {
	ca := make([]string, len(a))
	cb := make([]string, len(b))
	for i, e := range a {
		ca[i] = Canon(e, List)
	}
	for i, e := range b {
		cb[i] = Canon(e, List)
	}
	prev := make([]int, len(cb)+1)
	cur := make([]int, len(cb)+1)
	for i := 1; i <= len(ca); i++ {
		for j := 1; j <= len(cb); j++ {
			if ca[i-1] == cb[j-1] {
				cur[j] = prev[j-1] + 1
			} else if prev[j] >= cur[j-1] {
				cur[j] = prev[j]
			} else {
				cur[j] = cur[j-1]
			}
		}
		prev, cur = cur, prev
	}
	return prev[len(cb)]
}

// Depth of nesting (scalars 0).
func Depth(v any) int {
	d := 0
	switch t := v.(type) {
	case []any:
		for _, e := range t {
			if x := Depth(e) + 1; x > d {
				d = x
			}
		}
		if d == 0 {
			d = 1
		}
	case map[string]any:
		for _, e := range t {
			if x := Depth(e) + 1; x > d {
				d = x
			}
		}
		if d == 0 {
			d = 1
		}
	}
	return d
}

// HasNull reports whether null occurs anywhere in v.
func HasNull(v any) bool {
	switch t := v.(type) {
	case nil:
		return true
	case []any:
		for _, e := range t {
			if HasNull(e) {
				return true
			}
		}
	case map[string]any:
		for _, e := range t {
			if HasNull(e) {
				return true
			}
		}
	}
	return false
}
