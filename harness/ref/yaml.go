package ref

import (
	"fmt"
	"math"
	"regexp"
	"strconv"
	"strings"
	"unicode"
	"unicode/utf8"
)

// YamlStyle selects how the independent emitter writes a document.
type YamlStyle int

const (
	YBlockDouble YamlStyle = iota // block collections, every string double-quoted with escapes
	YBlockSingle                  // block collections, single-quoted strings where representable
	YFlowDouble                   // flow collections (JSON-like), double-quoted, non-ASCII escaped
	YBlockPlain                   // block collections, plain scalars only when a conservative allow-list says so
	YBlockLiteral                 // block collections, multi-line string VALUES as literal block scalars (|), the rest double-quoted
)

func (s YamlStyle) String() string {
	return [...]string{"block/double-quoted", "block/single-quoted", "flow/double-quoted", "block/plain-when-safe", "block/literal-scalars"}[s]
}

var plainSafe = regexp.MustCompile(`^[A-Za-z][A-Za-z0-9_]*( [A-Za-z0-9_]+)*$`)

var yamlReserved = map[string]bool{"true": true, "false": true, "yes": true, "no": true, "on": true, "off": true, "null": true, "y": true, "n": true, "nan": true, "inf": true}

func yamlDouble(s string, escapeNonASCII bool) string {
	var b strings.Builder
	b.WriteByte('"')
	for i := 0; i < len(s); {
		r, size := utf8.DecodeRuneInString(s[i:])
		if r == utf8.RuneError && size == 1 {
			// cannot happen for strings decoded from JSON
			fmt.Fprintf(&b, `\x%02X`, s[i])
			i++
			continue
		}
		switch {
		case r == '"':
			b.WriteString(`\"`)
		case r == '\\':
			b.WriteString(`\\`)
		case r == '\n':
			b.WriteString(`\n`)
		case r == '\t':
			b.WriteString(`\t`)
		case r < 0x20 || r == 0x7f:
			fmt.Fprintf(&b, `\x%02X`, r)
		case r < 0x7f:
			b.WriteRune(r)
		case escapeNonASCII || !unicode.IsPrint(r) || r == 0x85 || r == 0x2028 || r == 0x2029 || r == 0xFEFF || r == 0xA0:
			if r <= 0xFFFF {
				fmt.Fprintf(&b, `\u%04X`, r)
			} else {
				fmt.Fprintf(&b, `\U%08X`, r)
			}
		default:
			b.WriteRune(r)
		}
		i += size
	}
	b.WriteByte('"')
	return b.String()
}

func singleQuotable(s string) bool {
	for _, r := range s {
		if r < 0x20 || r == 0x7f || !unicode.IsPrint(r) || r == 0x85 || r == 0x2028 || r == 0x2029 || r == 0xFEFF || r == 0xA0 {
			return false
		}
	}
	return true
}

func yamlString(s string, st YamlStyle) string {
	switch st {
	case YBlockSingle:
		if singleQuotable(s) {
			return "'" + strings.ReplaceAll(s, "'", "''") + "'"
		}
		return yamlDouble(s, false)
	case YBlockPlain:
		if plainSafe.MatchString(s) && !yamlReserved[strings.ToLower(s)] {
			return s
		}
		return yamlDouble(s, false)
	case YFlowDouble:
		return yamlDouble(s, true)
	}
	return yamlDouble(s, false)
}

func yamlNumber(f float64) string {
	if f == math.Trunc(f) && math.Abs(f) < 1e15 {
		return strconv.FormatInt(int64(f), 10)
	}
	s := strconv.FormatFloat(f, 'g', -1, 64)
	if !strings.ContainsAny(s, ".eE") {
		s += ".0"
	}
	if strings.ContainsAny(s, "eE") && !strings.Contains(s, ".") {
		// YAML 1.1 floats need a dot in the mantissa: 1e+21 -> 1.0e+21
		i := strings.IndexAny(s, "eE")
		s = s[:i] + ".0" + s[i:]
	}
	return s
}

func yamlScalar(v any, st YamlStyle) (string, bool) {
	switch t := v.(type) {
	case nil:
		return "null", true
	case bool:
		if t {
			return "true", true
		}
		return "false", true
	case float64:
		return yamlNumber(t), true
	case string:
		return yamlString(t, st), true
	case []any:
		if len(t) == 0 {
			return "[]", true
		}
	case map[string]any:
		if len(t) == 0 {
			return "{}", true
		}
	}
	return "", false
}

// literalBlock writes s as a literal block scalar (header and content lines)
// for a parent at the given indentation, if s can be carried that way: it has
// a line break, every character is printable (or a tab), no line consists of
// white space only, and there is some content before the trailing line breaks.
// The header always carries the explicit indentation indicator 2.
func literalBlock(s string, indent int) (string, bool) {
	if !strings.Contains(s, "\n") {
		return "", false
	}
	for _, r := range s {
		if r == '\n' || r == '\t' {
			continue
		}
		if r < 0x20 || r == 0x7f || !unicode.IsPrint(r) || r == 0x85 || r == 0x2028 || r == 0x2029 || r == 0xFEFF || r == 0xA0 {
			return "", false
		}
	}
	body := strings.TrimRight(s, "\n")
	k := len(s) - len(body)
	if body == "" {
		return "", false
	}
	lines := strings.Split(body, "\n")
	for _, l := range lines {
		if l != "" && strings.TrimLeft(l, " \t") == "" {
			return "", false
		}
	}
	head := "|2-"
	switch {
	case k == 1:
		head = "|2"
	case k >= 2:
		head = "|2+"
	}
	pad := strings.Repeat(" ", indent+2)
	var b strings.Builder
	b.WriteString(head + "\n")
	for _, l := range lines {
		if l == "" {
			b.WriteString("\n")
		} else {
			b.WriteString(pad + l + "\n")
		}
	}
	for e := 1; e < k; e++ {
		b.WriteString("\n")
	}
	return b.String(), true
}

// YamlEmit renders a plain value as YAML without using any YAML library.
func YamlEmit(v any, st YamlStyle) string {
	if IsVoid(v) {
		return ""
	}
	if st == YFlowDouble {
		return yamlFlow(v, st) + "\n"
	}
	if s, ok := yamlScalar(v, st); ok {
		return s + "\n"
	}
	var b strings.Builder
	yamlBlock(&b, v, 0, st)
	return b.String()
}

func yamlFlow(v any, st YamlStyle) string {
	if s, ok := yamlScalar(v, st); ok {
		return s
	}
	switch t := v.(type) {
	case []any:
		parts := make([]string, len(t))
		for i, e := range t {
			parts[i] = yamlFlow(e, st)
		}
		return "[" + strings.Join(parts, ", ") + "]"
	case map[string]any:
		parts := make([]string, 0, len(t))
		for _, k := range SortedKeys(t) {
			parts = append(parts, yamlString(k, st)+": "+yamlFlow(t[k], st))
		}
		return "{" + strings.Join(parts, ", ") + "}"
	}
	panic(fmt.Sprintf("yamlFlow: %T", v))
}

func yamlBlock(b *strings.Builder, v any, indent int, st YamlStyle) {
	pad := strings.Repeat(" ", indent)
	switch t := v.(type) {
	case []any:
		for _, e := range t {
			if str, isStr := e.(string); isStr && st == YBlockLiteral {
				if lb, ok := literalBlock(str, indent); ok {
					b.WriteString(pad + "- " + lb)
					continue
				}
			}
			if s, ok := yamlScalar(e, st); ok {
				b.WriteString(pad + "- " + s + "\n")
			} else {
				b.WriteString(pad + "-\n")
				yamlBlock(b, e, indent+2, st)
			}
		}
	case map[string]any:
		for _, k := range SortedKeys(t) {
			key := yamlString(k, st)
			if str, isStr := t[k].(string); isStr && st == YBlockLiteral {
				if lb, ok := literalBlock(str, indent); ok {
					b.WriteString(pad + key + ": " + lb)
					continue
				}
			}
			if s, ok := yamlScalar(t[k], st); ok {
				b.WriteString(pad + key + ": " + s + "\n")
			} else {
				b.WriteString(pad + key + ":\n")
				yamlBlock(b, t[k], indent+2, st)
			}
		}
	default:
		panic(fmt.Sprintf("yamlBlock: %T", v))
	}
}
