package gen

import "verifharness/ref"

// DeepChainPair builds a pair that differs in several sibling members of an
// object reached through a chain of 1-9 object keys (optionally through an
// array on the way): two or more members changed, added or removed at one
// depth. This is the shape that exposes path slices shared between hunks.
func DeepChainPair(r *RNG, p Profile, nullFree bool) (any, any) {
	depth := r.Range(1, 9)
	if r.Chance(0.06) {
		depth = r.Range(30, 40)
	}
	scal := func() any {
		for {
			v := Scalar(r, p)
			if !nullFree || v != nil {
				return v
			}
		}
	}
	n := r.Range(2, 5)
	names := []string{"c", "d", "e", "k1", "k2", "x", "y", "z"}
	Shuffle(r, names)
	la, lb := map[string]any{}, map[string]any{}
	for i := 0; i < n; i++ {
		k := names[i]
		v := scal()
		switch r.Intn(6) {
		case 0: // unchanged
			la[k], lb[k] = v, ref.Clone(v)
		case 1: // changed scalar
			la[k], lb[k] = v, scal()
		case 2: // added
			lb[k] = v
		case 3: // removed
			la[k] = v
		case 4: // scalar -> container
			la[k] = v
			if r.Chance(0.5) {
				lb[k] = map[string]any{"n": scal()}
			} else {
				lb[k] = []any{scal(), scal()}
			}
		default: // array changed
			arr := []any{scal(), scal(), scal()}
			la[k] = arr
			lb[k] = append(ref.Clone(arr).([]any)[:2], scal())
		}
	}
	var a, b any = la, lb
	for d := depth; d > 0; d-- {
		key := Pick(r, []string{"a", "b", "m", "cfg"})
		if r.Chance(0.12) {
			a, b = []any{"h", a}, []any{"h", b}
			continue
		}
		wa, wb := map[string]any{key: a}, map[string]any{key: b}
		if r.Chance(0.3) {
			s := scal()
			wa["sib"], wb["sib"] = s, ref.Clone(s)
		}
		a, b = wa, wb
	}
	return a, b
}
