// Package gen holds seeded generators and exhaustive enumerators. Every case
// is a pure function of (seed, property, stratum, index).
package gen

import "hash/fnv"

type RNG struct{ s uint64 }

func mix(z uint64) uint64 {
	z += 0x9e3779b97f4a7c15
	z = (z ^ (z >> 30)) * 0xbf58476d1ce4e5b9
	z = (z ^ (z >> 27)) * 0x94d049bb133111eb
	return z ^ (z >> 31)
}

// New derives an independent stream from a seed and any number of parts.
func New(seed uint64, parts ...uint64) *RNG {
	s := mix(seed ^ 0x5851f42d4c957f2d)
	for _, p := range parts {
		s = mix(s ^ mix(p))
	}
	return &RNG{s}
}

func StrPart(s string) uint64 {
	h := fnv.New64a()
	h.Write([]byte(s))
	return h.Sum64()
}

func (r *RNG) U64() uint64 {
	r.s += 0x9e3779b97f4a7c15
	z := r.s
	z = (z ^ (z >> 30)) * 0xbf58476d1ce4e5b9
	z = (z ^ (z >> 27)) * 0x94d049bb133111eb
	return z ^ (z >> 31)
}

func (r *RNG) Intn(n int) int {
	if n <= 0 {
		return 0
	}
	return int(r.U64() % uint64(n))
}

// Range returns a value in [lo, hi].
func (r *RNG) Range(lo, hi int) int { return lo + r.Intn(hi-lo+1) }

func (r *RNG) Float() float64 { return float64(r.U64()>>11) / (1 << 53) }

func (r *RNG) Chance(p float64) bool { return r.Float() < p }

func Pick[T any](r *RNG, xs []T) T { return xs[r.Intn(len(xs))] }

func Shuffle[T any](r *RNG, xs []T) {
	for i := len(xs) - 1; i > 0; i-- {
		j := r.Intn(i + 1)
		xs[i], xs[j] = xs[j], xs[i]
	}
}
