package gen

import (
	"fmt"
	"sort"
	"strings"

	"verifharness/ref"
)

// Profile controls random document generation. Alphabets are tiny on
// purpose so that repeats, duplicates and value collisions are common.
type Profile struct {
	MaxDepth int
	MaxFan   int
	Scalars  []any
	Keys     []string
	PArr     float64 // probability a container node is an array
	PLeaf    float64 // probability of a scalar at non-zero remaining depth
	Empty    bool    // allow empty containers
}

var (
	ScalarsTiny  = []any{1.0, 2.0, 3.0, "a"}
	ScalarsSmall = []any{0.0, 1.0, 2.0, 3.0, "a", "b", "", true, false, "true"}
	ScalarsNulls = []any{0.0, 1.0, 2.0, "a", "b", "", true, false, "null", "false", nil}
	ScalarsNum   = []any{0.0, 1.0, 2.0, 3.0, 1.5, -1.0}
	// numbers whose spelling is not trivial: 17 significant digits, exponents of both signs, the extremes
	ScalarsNumbers = []any{0.0, 1.0, -1.0, 2.5, 0.1 + 0.2, 0.3, 1e21, 1e-7, 1.2345678901234568e20, 123456789012345680.0, 5e-324, 1.7976931348623157e308, 100.0, 1.0 / 3, "1", "a"}
	KeysSmall      = []string{"a", "b", "c", "d"}
	KeysHostile    = []string{"a", "b", "", "a/b", "m~n", "~0", "~1", "~01", "é", " ", "x y", "1a", "-x", "a\"b", "\\", "<&>", "a/b/c", "~~", "x/y~z/~0~1", "//", "a b", "b a", "a 1", "k\u0001", "\u007f", "bell\a", "e\u0301", "A", "K", "\u212a", "a\n", ".", "..", "\ufffd", "\u202eabc", "a\u200db", "\u0664\u0662", "\uff11\uff12", "\u0967\u0968", "\\u0026", "a\\u003cb"}
	KeysNumberish  = []string{"0", "1", "-1", "01", "-", "+1", "1e3", "12"}
)

var (
	PDefault = Profile{MaxDepth: 4, MaxFan: 4, Scalars: ScalarsSmall, Keys: KeysSmall, PArr: 0.55, PLeaf: 0.35, Empty: true}
	PNulls   = Profile{MaxDepth: 4, MaxFan: 4, Scalars: ScalarsNulls, Keys: KeysSmall, PArr: 0.55, PLeaf: 0.35, Empty: true}
	PTiny    = Profile{MaxDepth: 3, MaxFan: 5, Scalars: ScalarsTiny, Keys: []string{"a", "b", "c"}, PArr: 0.65, PLeaf: 0.4, Empty: true}
	PDeep    = Profile{MaxDepth: 5, MaxFan: 3, Scalars: ScalarsSmall, Keys: KeysSmall, PArr: 0.6, PLeaf: 0.3, Empty: true}
	PObjects = Profile{MaxDepth: 4, MaxFan: 4, Scalars: ScalarsSmall, Keys: KeysSmall, PArr: 0.2, PLeaf: 0.35, Empty: true}
	PNumbers = Profile{MaxDepth: 3, MaxFan: 4, Scalars: ScalarsNumbers, Keys: KeysSmall, PArr: 0.55, PLeaf: 0.4, Empty: true}
	// values whose TEXT looks like JSON / YAML syntax: a reader or writer that pre- or post-processes text
	// with patterns (trailing commas, comments, escapes, number spellings) rewrites them
	ScalarsSyntaxy = []any{",]", ", }", "[1,2,]", "{\"a\":1,}", "a,]b", "//c", "/*c*/", "#c", "\\u0026", "1e+06", "x\ufeffy", "a\u007fb", -1.0, "key: value", "- item", "<<: x", "null", "~", "'q'", "\"q\"", 1.0, true}
	PSyntaxy       = Profile{MaxDepth: 3, MaxFan: 4, Scalars: ScalarsSyntaxy, Keys: []string{"a", "b", ",]", "k,", "#c", "x: y"}, PArr: 0.5, PLeaf: 0.4, Empty: true}
	PHostile       = Profile{MaxDepth: 3, MaxFan: 4, Scalars: ScalarsSmall, Keys: KeysHostile, PArr: 0.45, PLeaf: 0.35, Empty: true}
)

func (p Profile) With(f func(*Profile)) Profile { f(&p); return p }

func Scalar(r *RNG, p Profile) any { return Pick(r, p.Scalars) }

// LongArrayPair returns two arrays of 10-30 (sometimes 95-130, 250-270) small
// scalars that differ by one to three localised edits, placed by preference
// at indices 9, 10, 19, 99, 100, 255, 256 and at the very end, so that
// multi-digit index tokens and sizes around powers of two are exercised.
func LongArrayPair(r *RNG) ([]any, []any) {
	n := r.Range(10, 30)
	switch r.Intn(6) {
	case 0:
		n = r.Range(95, 130)
	case 1:
		n = r.Range(250, 270)
	}
	a := make([]any, n)
	for i := range a {
		a[i] = float64(r.Intn(7))
		if r.Chance(0.1) {
			a[i] = Pick(r, []any{"s", true, nil})
		}
	}
	b := append([]any{}, a...)
	if r.Chance(0.1) {
		// the array grows (or starts) by more than a dozen elements at once
		if r.Chance(0.5) {
			a = []any{}
		}
		for k := r.Range(13, 22); k > 0; k-- {
			b = append(b, float64(r.Intn(7)))
		}
		return a, b
	}
	for e := r.Range(1, 3); e > 0; e-- {
		m := len(b)
		if m == 0 {
			break
		}
		pos := Pick(r, []int{9, 10, 19, 29, 99, 100, 255, 256, m - 1, m - 2, r.Intn(m)})
		if pos < 0 || pos >= m {
			pos = m - 1
		}
		switch r.Intn(4) {
		case 0:
			b[pos] = "new"
		case 1:
			b = append(b[:pos:pos], b[pos+1:]...)
		case 2:
			b = append(b[:pos:pos], append([]any{"ins"}, b[pos:]...)...)
		default:
			b = b[:pos] // drop the tail from pos on
		}
	}
	return a, b
}

// Doc generates a random document of depth <= p.MaxDepth.
func Doc(r *RNG, p Profile) any { return doc(r, p, p.MaxDepth, true) }

func doc(r *RNG, p Profile, depth int, root bool) any {
	if depth == 0 || (!root && r.Chance(p.PLeaf)) || (root && r.Chance(0.05)) {
		return Scalar(r, p)
	}
	lo := 1
	if p.Empty && r.Chance(0.12) {
		lo = 0
	}
	n := lo
	if lo > 0 {
		n = r.Range(1, p.MaxFan)
	}
	if r.Chance(p.PArr) {
		a := make([]any, n)
		for i := range a {
			a[i] = doc(r, p, depth-1, false)
		}
		// duplicates on purpose
		if n >= 2 && r.Chance(0.3) {
			a[r.Intn(n)] = ref.Clone(a[r.Intn(n)])
		}
		return a
	}
	o := map[string]any{}
	for i := 0; i < n; i++ {
		o[Pick(r, p.Keys)] = doc(r, p, depth-1, false)
	}
	return o
}

// Array generates an array of n elements drawn from a small pool of
// scalars and (optionally) small containers.
func Array(r *RNG, p Profile, n int, containers float64) []any {
	a := make([]any, n)
	for i := range a {
		if r.Chance(containers) {
			a[i] = doc(r, p, 2, false)
		} else {
			a[i] = Scalar(r, p)
		}
	}
	return a
}

// Mutate returns an edited deep copy of v: structured edits at every level
// so multi-hunk, index-shifting, nested diffs are the norm.
func Mutate(r *RNG, p Profile, v any) any { return mutate(r, p, ref.Clone(v), 0.5, 0) }

func mutate(r *RNG, p Profile, v any, rate float64, depth int) any {
	if r.Chance(0.04) {
		// change type wholesale
		return doc(r, p, 2, false)
	}
	switch t := v.(type) {
	case []any:
		// recurse into children first
		for i := range t {
			if r.Chance(rate * 0.5) {
				t[i] = mutate(r, p, t[i], rate*0.8, depth+1)
			}
		}
		nedits := 0
		switch x := r.Float(); {
		case x < 0.15:
			nedits = 0
		case x < 0.6:
			nedits = 1
		case x < 0.85:
			nedits = 2
		default:
			nedits = 3
		}
		for e := 0; e < nedits; e++ {
			t = editArray(r, p, t)
		}
		return t
	case map[string]any:
		for _, k := range ref.SortedKeys(t) {
			if r.Chance(rate * 0.5) {
				t[k] = mutate(r, p, t[k], rate*0.8, depth+1)
			}
		}
		switch x := r.Float(); {
		case x < 0.2:
			if len(t) > 0 {
				delete(t, Pick(r, ref.SortedKeys(t)))
			}
		case x < 0.45:
			t[Pick(r, p.Keys)] = doc(r, p, 2, false)
		case x < 0.55:
			if len(t) > 0 {
				k := Pick(r, ref.SortedKeys(t))
				t[k] = Scalar(r, p)
			}
		case x < 0.63:
			// move values between keys: the object keeps its keys and its multiset of values
			if ks := ref.SortedKeys(t); len(ks) >= 2 {
				i, j := r.Intn(len(ks)), r.Intn(len(ks))
				t[ks[i]], t[ks[j]] = t[ks[j]], t[ks[i]]
			}
		case x < 0.66:
			// a key trades places with its string value
			for _, k := range ref.SortedKeys(t) {
				if s, ok := t[k].(string); ok && s != k {
					if _, clash := t[s]; !clash {
						delete(t, k)
						t[s] = k
						break
					}
				}
			}
		}
		return t
	default:
		if r.Chance(rate) {
			return Scalar(r, p)
		}
		return v
	}
}

func editArray(r *RNG, p Profile, a []any) []any {
	n := len(a)
	run := r.Range(1, 3)
	pos := func() int {
		switch r.Intn(4) {
		case 0:
			return 0
		case 1:
			return n
		default:
			return r.Intn(n + 1)
		}
	}
	newEl := func() any {
		if n > 0 && r.Chance(0.4) {
			return ref.Clone(a[r.Intn(n)]) // duplicate of an existing element
		}
		if r.Chance(0.2) {
			return doc(r, p, 2, false)
		}
		return Scalar(r, p)
	}
	switch r.Intn(9) {
	case 0, 1: // insert run
		i := pos()
		ins := make([]any, run)
		for k := range ins {
			ins[k] = newEl()
		}
		out := append([]any{}, a[:i]...)
		out = append(out, ins...)
		return append(out, a[i:]...)
	case 2, 3: // delete run
		if n == 0 {
			return a
		}
		i := pos()
		if i >= n {
			i = n - 1
		}
		j := i + run
		if j > n {
			j = n
		}
		out := append([]any{}, a[:i]...)
		return append(out, a[j:]...)
	case 4: // replace one
		if n == 0 {
			return a
		}
		a[r.Intn(n)] = newEl()
		return a
	case 5: // swap two
		if n < 2 {
			return a
		}
		i, j := r.Intn(n), r.Intn(n)
		a[i], a[j] = a[j], a[i]
		return a
	case 6: // rotate
		if n < 2 {
			return a
		}
		k := r.Range(1, n-1)
		return append(append([]any{}, a[k:]...), a[:k]...)
	case 7: // reverse
		for i, j := 0, n-1; i < j; i, j = i+1, j-1 {
			a[i], a[j] = a[j], a[i]
		}
		return a
	default: // truncate or extend at tail
		if r.Chance(0.5) && n > 0 {
			return a[:r.Intn(n)]
		}
		for k := 0; k < run; k++ {
			a = append(a, newEl())
		}
		return a
	}
}

// Pair returns (a, b): three times in four b is a mutation of a, otherwise
// two independent documents.
func Pair(r *RNG, p Profile) (any, any) {
	if r.Chance(0.02) {
		return WideObjectPair(r, p)
	}
	a := Doc(r, p)
	if r.Chance(0.25) {
		return a, Doc(r, p)
	}
	return a, Mutate(r, p, a)
}

// WideObjectPair returns two objects (sometimes below a key or inside an
// array) with 20-300 members that differ in one to four members, by
// preference the first and last keys in sorted order: anything that sorts,
// batches or pre-sizes by member count is exercised.
func WideObjectPair(r *RNG, p Profile) (any, any) {
	n := Pick(r, []int{20, 33, 64, 65, 129, 300})
	a := map[string]any{}
	for i := 0; i < n; i++ {
		a[fmt.Sprintf("k%03d", i)] = Scalar(r, p)
	}
	if r.Chance(0.3) {
		a["k001"] = map[string]any{"x": Scalar(r, p)}
		a[fmt.Sprintf("k%03d", n-2)] = []any{Scalar(r, p), Scalar(r, p)}
	}
	b := ref.Clone(a).(map[string]any)
	for e := r.Range(1, 4); e > 0; e-- {
		k := Pick(r, []string{"k000", fmt.Sprintf("k%03d", n-1), fmt.Sprintf("k%03d", r.Intn(n)), fmt.Sprintf("k%03d", n+r.Intn(3)), "a", "z"})
		switch r.Intn(3) {
		case 0:
			delete(b, k)
		case 1:
			b[k] = Scalar(r, p)
		default:
			b[k] = map[string]any{"y": Scalar(r, p)}
		}
	}
	switch r.Intn(4) {
	case 0:
		return map[string]any{"w": a}, map[string]any{"w": b}
	case 1:
		return []any{a, Scalar(r, p)}, []any{b, Scalar(r, p)}
	}
	return a, b
}

// ---- keyed documents (SetKeys precondition) ----

// KeyedDoc: every object that is a direct member of an array carries all
// keys with scalar values, and key tuples are unique within the array.
func KeyedDoc(r *RNG, p Profile, keys []string) any {
	return Keyify(r, Doc(r, p), keys)
}

var keyVals = []any{1.0, 2.0, 3.0, 4.0, "x", "y", "z", true}

// disjoint pools per key position: tuples can never be permutations of each
// other, within a document or across the two documents of a pair.
var keyValsByPos = [][]any{{1.0, 2.0, 3.0, 4.0, 5.0, 6.0}, {"x", "y", "z", "w", true, false}, {"p", "q", 10.0, 11.0}}

func keyVal(r *RNG, pos int, ordered bool) any {
	if ordered {
		return Pick(r, keyVals)
	}
	return Pick(r, keyValsByPos[pos%len(keyValsByPos)])
}

func inPool(v any, pos int, ordered bool) bool {
	pool := keyVals
	if !ordered {
		pool = keyValsByPos[pos%len(keyValsByPos)]
	}
	for _, p := range pool {
		if p == v {
			return true
		}
	}
	return false
}

// Keyify rewrites v in place so that the SetKeys precondition holds.
func Keyify(r *RNG, v any, keys []string) any { return keyify(r, v, keys, false) }

// KeyifyPermuted is Keyify but only demands that key tuples are unique as
// ordered tuples, so tuples that are permutations of each other occur.
func KeyifyPermuted(r *RNG, v any, keys []string) any { return keyify(r, v, keys, true) }

func tupleOf(o map[string]any, keys []string, ordered bool) string {
	parts := make([]string, len(keys))
	for i, k := range keys {
		parts[i] = ref.Canon(o[k], ref.List)
	}
	if !ordered {
		sort.Strings(parts)
	}
	return strings.Join(parts, "|")
}

func keyify(r *RNG, v any, keys []string, ordered bool) any {
	switch t := v.(type) {
	case []any:
		seen := map[string]bool{}
		out := t[:0]
		for _, e := range t {
			e = keyify(r, e, keys, ordered)
			if o, ok := e.(map[string]any); ok {
				for pos, k := range keys {
					if cur, has := o[k]; !has || !inPool(cur, pos, ordered) {
						o[k] = keyVal(r, pos, ordered)
					}
				}
				// In the default mode key values come from disjoint pools per key, so
				// tuples are never permutations of each other: jd's member identity ignores
				// which key holds which value (known finding F21); permuted tuples are
				// confined to a dedicated stratum (ordered=true).
				tuple := tupleOf(o, keys, true)
				for tries := 0; seen[tuple] && tries < 20; tries++ {
					pos := r.Intn(len(keys))
					o[keys[pos]] = keyVal(r, pos, ordered)
					tuple = tupleOf(o, keys, true)
				}
				if seen[tuple] {
					continue // drop the member: cannot make it unique
				}
				seen[tuple] = true
			}
			out = append(out, e)
		}
		return out
	case map[string]any:
		for _, k := range ref.SortedKeys(t) {
			t[k] = keyify(r, t[k], keys, ordered)
		}
		return t
	}
	return v
}

func isScalarNonNull(v any) bool {
	switch v.(type) {
	case float64, string, bool:
		return true
	}
	return false
}

// KeyedPair: b is a mutation of a, re-keyified (so members may keep their
// identity while other fields change).
func KeyedPair(r *RNG, p Profile, keys []string) (any, any) {
	a := KeyedDoc(r, p, keys)
	var b any
	if r.Chance(0.2) {
		b = KeyedDoc(r, p, keys)
	} else {
		b = Keyify(r, Mutate(r, p, a), keys)
	}
	return a, b
}

// ---- perturbed targets ----

// Perturb returns a target document "near" a: arrays shifted, shortened,
// lengthened, reordered or with one element changed at any depth, keys
// changed or missing, a container replaced by a member or a scalar.
func Perturb(r *RNG, p Profile, a any) any {
	c := ref.Clone(a)
	n := r.Range(1, 2)
	for i := 0; i < n; i++ {
		c = perturbOnce(r, p, c)
	}
	return c
}

func perturbOnce(r *RNG, p Profile, v any) any {
	// pick a node uniformly among containers (and root)
	nodes := 0
	countNodes(v, &nodes)
	target := r.Intn(nodes)
	idx := 0
	return perturbAt(r, p, v, target, &idx)
}

func countNodes(v any, n *int) {
	*n++
	switch t := v.(type) {
	case []any:
		for _, e := range t {
			countNodes(e, n)
		}
	case map[string]any:
		for _, e := range t {
			countNodes(e, n)
		}
	}
}

func perturbAt(r *RNG, p Profile, v any, target int, idx *int) any {
	me := *idx
	*idx++
	if me == target {
		return perturbNode(r, p, v)
	}
	switch t := v.(type) {
	case []any:
		for i := range t {
			t[i] = perturbAt(r, p, t[i], target, idx)
		}
	case map[string]any:
		for _, k := range ref.SortedKeys(t) {
			t[k] = perturbAt(r, p, t[k], target, idx)
		}
	}
	return v
}

func perturbNode(r *RNG, p Profile, v any) any {
	switch t := v.(type) {
	case []any:
		n := len(t)
		switch r.Intn(10) {
		case 0: // shift right by inserting at head
			return append([]any{Scalar(r, p)}, t...)
		case 1: // shift left by dropping head
			if n > 0 {
				return t[1:]
			}
		case 2: // drop tail
			if n > 0 {
				return t[:n-1]
			}
		case 3: // append
			return append(t, Scalar(r, p))
		case 4: // change one element
			if n > 0 {
				i := r.Intn(n)
				t[i] = Scalar(r, p)
				return t
			}
		case 5: // swap neighbours
			if n > 1 {
				i := r.Intn(n - 1)
				t[i], t[i+1] = t[i+1], t[i]
				return t
			}
		case 6: // empty
			return []any{}
		case 7: // replace by a member
			if n > 0 {
				return t[r.Intn(n)]
			}
		case 8: // duplicate one
			if n > 0 {
				i := r.Intn(n)
				out := append([]any{}, t[:i+1]...)
				out = append(out, ref.Clone(t[i]))
				return append(out, t[i+1:]...)
			}
		default:
			Shuffle(r, t)
			return t
		}
		return Scalar(r, p)
	case map[string]any:
		ks := ref.SortedKeys(t)
		switch r.Intn(5) {
		case 0:
			if len(ks) > 0 {
				delete(t, Pick(r, ks))
				return t
			}
		case 1:
			if len(ks) > 0 {
				t[Pick(r, ks)] = Scalar(r, p)
				return t
			}
		case 2:
			t[Pick(r, p.Keys)] = Scalar(r, p)
			return t
		case 3:
			if len(ks) > 0 {
				return t[Pick(r, ks)]
			}
		}
		return Scalar(r, p)
	default:
		x := Scalar(r, p)
		if fmt.Sprint(x) == fmt.Sprint(v) {
			return []any{v}
		}
		return x
	}
}

// ---- exhaustive enumerators ----

// Arrays enumerates all arrays over alphabet with length 0..maxLen.
func Arrays(alphabet []any, maxLen int) [][]any {
	out := [][]any{{}}
	level := [][]any{{}}
	for l := 1; l <= maxLen; l++ {
		var next [][]any
		for _, a := range level {
			for _, s := range alphabet {
				b := append(append([]any{}, a...), s)
				next = append(next, b)
			}
		}
		out = append(out, next...)
		level = next
	}
	return out
}

// Wrap places an array at the root (0), under a key (1), inside an array
// (2), or array-in-object-in-array (3).
func Wrap(a []any, how int) any {
	switch how {
	case 1:
		return map[string]any{"k": a, "z": 1.0}
	case 2:
		return []any{"h", a, "t"}
	case 3:
		return []any{map[string]any{"k": a}, "t"}
	}
	return a
}
