// Package mon is the monitor runtime: case contexts, per-shard result
// records, and the definitions of properties and strata.
package mon

import (
	"encoding/json"
	"fmt"
	"hash/fnv"
	"os"
	"runtime/debug"
	"sort"
	"strings"
	"syscall"
	"time"

	"verifharness/gen"
)

type Tier string

const (
	Quick    Tier = "quick"
	Thorough Tier = "thorough"
)

// Stratum is a finite, indexable family of cases.
type Stratum struct {
	Name string
	// N is the number of cases for a tier (fixed numbers, never time).
	N func(t Tier) int
	// Run executes case i and judges it.
	Run func(c *Ctx, i int)
	// Exhaustive marks a stratum that enumerates a finite space completely.
	Exhaustive func(t Tier) bool
	// CLI marks strata that spawn processes (fewer shards).
	CLI bool
	// Race marks strata that must run in the -race worker.
	Race bool
}

type Property struct {
	ID     string
	Rule   string // how cases are generated and what non-trivial means
	Strata []Stratum
	// Floors: feature name -> minimal count (quick tier); thorough uses the same
	// floors. A floor not reached makes the run inconclusive, never "held".
	Floors map[string]int
	// Assumptions for the evidence file.
	Assumptions []string
	NeedsCLI    bool
}

var Registry = map[string]*Property{}

func Register(p *Property) { Registry[p.ID] = p }

type Violation struct {
	Stratum string         `json:"stratum"`
	Index   int            `json:"index"`
	Reason  string         `json:"reason"`
	Detail  map[string]any `json:"detail,omitempty"`
	Known   string         `json:"known,omitempty"` // known-finding id, if classified
}

// ShardResult is what a worker reports.
type ShardResult struct {
	Evaluations  int                       `json:"evaluations"`
	PerStratum   map[string]int            `json:"per_stratum"`
	Features     map[string]int            `json:"features"`
	Skips        map[string]int            `json:"skips"`
	Violations   []Violation               `json:"violations"`
	NViolations  int                       `json:"n_violations"`
	VioByStratum map[string]int            `json:"violations_by_stratum"`
	VioByReason  map[string]int            `json:"violations_by_reason"`
	Known        map[string]int            `json:"known"`
	KnownFirst   map[string]Violation      `json:"known_first"`
	Samples      []any                     `json:"samples"`
	Hashes       []uint64                  `json:"-"`
	Extra        map[string]map[string]int `json:"extra"` // named sets, e.g. transitions seen
	Inconclusive map[string]int            `json:"inconclusive"`
}

func NewShardResult() *ShardResult {
	return &ShardResult{
		PerStratum: map[string]int{}, Features: map[string]int{}, Skips: map[string]int{},
		VioByStratum: map[string]int{}, VioByReason: map[string]int{}, Inconclusive: map[string]int{},
		Known: map[string]int{}, KnownFirst: map[string]Violation{}, Extra: map[string]map[string]int{},
	}
}

// Ctx is handed to a stratum's Run for one case.
type Ctx struct {
	R       *gen.RNG
	Tier    Tier
	Seed    uint64
	Prop    string
	Stratum string
	Index   int
	Verbose bool // replay mode
	WorkDir string
	Bins    map[string]string // CLI binaries: jd1, jd2

	res      *ShardResult
	inputs   map[string]any
	order    []string
	violated bool
	nsamples *int
}

// Input records a named input of this case (shown in replays and samples).
func (c *Ctx) Input(name string, v any) {
	if c.inputs == nil {
		c.inputs = map[string]any{}
	}
	if _, ok := c.inputs[name]; !ok {
		c.order = append(c.order, name)
	}
	c.inputs[name] = v
	if c.Verbose {
		fmt.Printf("  input %-10s %v\n", name, trunc(fmt.Sprint(v), 2000))
	}
}

func trunc(s string, n int) string {
	if len(s) > n {
		return s[:n] + fmt.Sprintf("...(%d bytes)", len(s))
	}
	return s
}

func (c *Ctx) Feature(name string) { c.res.Features[name]++ }

// Event counts one more judged execution inside the current case (a case
// may drive several API events, each with its own verdict).
func (c *Ctx) Event() { c.res.Evaluations++ }

func (c *Ctx) FeatureN(name string, n int) { c.res.Features[name] += n }

// Seen records membership of item in a named set (e.g. reader transitions).
func (c *Ctx) Seen(set, item string) {
	m := c.res.Extra[set]
	if m == nil {
		m = map[string]int{}
		c.res.Extra[set] = m
	}
	m[item]++
}

// Nontrivial marks this case as non-trivial; key identifies it for
// distinctness (usually the concatenated inputs).
func (c *Ctx) Nontrivial(key string) {
	h := fnv.New64a()
	h.Write([]byte(c.Stratum[:1]))
	h.Write([]byte(key))
	c.res.Hashes = append(c.res.Hashes, h.Sum64())
}

// Inconclusive records that this case could not be judged for a reason that is not a property of
// jd (e.g. a wall-clock watchdog on a loaded machine). It never counts as held or as violated; the
// driver reports the run as INCONCLUSIVE.
func (c *Ctx) Inconclusive(reason string) {
	c.res.Inconclusive[reason]++
	if c.Verbose {
		fmt.Printf("  INCONCLUSIVE %s\n", reason)
	}
}

func (c *Ctx) Skip(reason string) {
	c.res.Skips[reason]++
	if c.Verbose {
		fmt.Printf("  SKIP %s\n", reason)
	}
}

func (c *Ctx) detail(extra map[string]any) map[string]any {
	d := map[string]any{}
	for k, v := range c.inputs {
		d[k] = v
	}
	for k, v := range extra {
		d[k] = v
	}
	for k, v := range d {
		if s, ok := v.(string); ok {
			d[k] = trunc(s, 4000)
		}
	}
	return d
}

// Violation records a violation of the property by this case.
func (c *Ctx) Violation(reason string, extra map[string]any) {
	c.violated = true
	c.res.NViolations++
	c.res.VioByStratum[c.Stratum]++
	rk := reason
	if i := strings.Index(rk, ":"); i > 0 {
		rk = rk[:i]
	}
	if len(rk) > 90 {
		rk = rk[:90]
	}
	c.res.VioByReason[rk]++
	if len(c.res.Violations) < 60 && c.res.VioByReason[rk] <= 3 {
		c.res.Violations = append(c.res.Violations, Violation{Stratum: c.Stratum, Index: c.Index, Reason: reason, Detail: c.detail(extra)})
	}
	if c.Verbose {
		fmt.Printf("  VIOLATED: %s\n", reason)
		for k, v := range extra {
			fmt.Printf("    %-10s %v\n", k, trunc(fmt.Sprint(v), 4000))
		}
	}
}

// Known records an observation of a catalogued finding (decided by the
// caller through its classifier and deviation model). Whether it is
// downgraded to KNOWN-FINDING is decided by the driver from the committed
// known_findings.json: an id that is not listed there as open is a violation.
func (c *Ctx) Known(id, reason string, extra map[string]any) {
	c.res.Known[id]++
	if c.Verbose {
		fmt.Printf("  KNOWN(%s): %s\n", id, reason)
		for k, v := range extra {
			fmt.Printf("    %-10s %v\n", k, trunc(fmt.Sprint(v), 4000))
		}
	}
	if _, ok := c.res.KnownFirst[id]; !ok {
		c.res.KnownFirst[id] = Violation{Stratum: c.Stratum, Index: c.Index, Reason: reason, Detail: c.detail(extra), Known: id}
	}
}

// Sample offers this case (its recorded inputs plus extra) as a sample.
func (c *Ctx) Sample(extra map[string]any) {
	if *c.nsamples >= 2 {
		return
	}
	*c.nsamples++
	d := c.detail(extra)
	d["stratum"] = c.Stratum
	d["index"] = c.Index
	for k, v := range d {
		if s, ok := v.(string); ok {
			d[k] = trunc(s, 600)
		}
	}
	c.res.Samples = append(c.res.Samples, d)
}

func (c *Ctx) Logf(f string, a ...any) {
	if c.Verbose {
		fmt.Printf("  "+f+"\n", a...)
	}
}

// RunCase runs one case with panic containment: a panic that escapes the
// monitor (i.e. from jd code not individually wrapped) is a violation.
func RunCase(p *Property, s *Stratum, i int, tier Tier, seed uint64, res *ShardResult, nsamples *int, verbose bool, workDir string, bins map[string]string) {
	c := &Ctx{
		R:    gen.New(seed, gen.StrPart(p.ID), gen.StrPart(s.Name), uint64(i)),
		Tier: tier, Seed: seed, Prop: p.ID, Stratum: s.Name, Index: i, Verbose: verbose,
		WorkDir: workDir, Bins: bins, res: res, nsamples: nsamples,
	}
	res.Evaluations++
	res.PerStratum[s.Name]++
	defer func() {
		if r := recover(); r != nil {
			if _, ok := r.(Unjudged); ok {
				return // already recorded through Inconclusive
			}
			st := string(debug.Stack())
			c.Violation(fmt.Sprintf("panic: %v", r), map[string]any{"stack": trimStack(st)})
		}
	}()
	s.Run(c, i)
}

func trimStack(st string) string {
	lines := strings.Split(st, "\n")
	var keep []string
	for _, l := range lines {
		if strings.Contains(l, "runtime/debug") || strings.Contains(l, "runtime/panic") {
			continue
		}
		keep = append(keep, l)
		if len(keep) > 24 {
			break
		}
	}
	return strings.Join(keep, "\n")
}

// Unjudged is panicked by helpers that have recorded the case as inconclusive and want to abandon it.
type Unjudged string

// Safe runs f and returns a non-empty panic description if it panicked.
func Safe(f func()) (panicked string) {
	defer func() {
		if r := recover(); r != nil {
			panicked = fmt.Sprintf("%v\n%s", r, trimStack(string(debug.Stack())))
		}
	}()
	f()
	return ""
}

// SafeBounded runs f like Safe, in a goroutine of its own, and gives up once
// THIS PROCESS has consumed cpuSeconds of CPU time since the call began
// without f returning. The measure is CPU time (getrusage), not wall-clock: a
// starved process on a loaded machine accumulates none, a call that spins
// accumulates one second per second. A call that is given up keeps spinning
// until the worker exits; the monitor goes on with the next case.
func SafeBounded(f func(), cpuSeconds float64) (panicked string, finished bool) {
	done := make(chan string, 1)
	go func() { done <- Safe(f) }()
	select {
	case p := <-done:
		return p, true
	case <-time.After(5 * time.Millisecond):
	}
	start := cpuNow()
	t := time.NewTicker(50 * time.Millisecond)
	defer t.Stop()
	for {
		select {
		case p := <-done:
			return p, true
		case <-t.C:
			if cpuNow()-start > cpuSeconds {
				return "", false
			}
		}
	}
}

func cpuNow() float64 {
	var ru syscall.Rusage
	if syscall.Getrusage(syscall.RUSAGE_SELF, &ru) != nil {
		return 0
	}
	return float64(ru.Utime.Sec) + float64(ru.Utime.Usec)/1e6 + float64(ru.Stime.Sec) + float64(ru.Stime.Usec)/1e6
}

// ---- replay files ----

type Replay struct {
	Property string         `json:"property"`
	Tier     Tier           `json:"tier"`
	Seed     uint64         `json:"seed"`
	Stratum  string         `json:"stratum"`
	Index    int            `json:"index"`
	Reason   string         `json:"reason"`
	Known    string         `json:"known_finding,omitempty"`
	Detail   map[string]any `json:"detail,omitempty"`
	How      string         `json:"how_to_replay"`
}

func WriteJSON(path string, v any) error {
	b, err := json.MarshalIndent(v, "", " ")
	if err != nil {
		return err
	}
	return os.WriteFile(path, append(b, '\n'), 0o644)
}

func SortedKeys[V any](m map[string]V) []string {
	ks := make([]string, 0, len(m))
	for k := range m {
		ks = append(ks, k)
	}
	sort.Strings(ks)
	return ks
}
