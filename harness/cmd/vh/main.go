// Command vh is both the driver (vh drive) and the sacrificial worker
// (vh work) of the verification harness, plus replay.
package main

import (
	"encoding/binary"
	"encoding/json"
	"flag"
	"fmt"
	"os"
	"os/exec"
	"path/filepath"
	"runtime"
	"sort"
	"strconv"
	"strings"
	"sync"
	"syscall"
	"time"

	"verifharness/mon"
	_ "verifharness/props"
)

// verifDir is where evidence and known findings live. It is /verif unless a scratch lane
// (tools/lane.sh: a copy of the harness working against a clone of the repository, used to run
// seeded changes without touching /repo) overrides it.
var verifDir = func() string {
	if d := os.Getenv("VH_VERIF_DIR"); d != "" {
		return d
	}
	return "/verif"
}()

func main() {
	if len(os.Args) < 2 {
		usage()
	}
	switch os.Args[1] {
	case "drive":
		os.Exit(drive(os.Args[2:]))
	case "work":
		os.Exit(work(os.Args[2:]))
	case "replay":
		os.Exit(replay(os.Args[2:]))
	case "needs":
		p := mon.Registry[os.Args[2]]
		if p == nil {
			fmt.Fprintln(os.Stderr, "unknown property")
			os.Exit(2)
		}
		var n []string
		if p.NeedsCLI {
			n = append(n, "cli")
		}
		for _, s := range p.Strata {
			if s.Race {
				n = append(n, "race")
				break
			}
		}
		fmt.Println(strings.Join(n, " "))
	case "list":
		for _, id := range mon.SortedKeys(mon.Registry) {
			fmt.Println(id)
		}
	default:
		usage()
	}
}

func usage() {
	fmt.Fprintln(os.Stderr, "usage: vh drive <PROP> <quick|thorough> | vh work ... | vh replay <file> | vh needs <PROP> | vh list")
	os.Exit(2)
}

func envSeed() uint64 {
	if s := os.Getenv("VERIF_SEED"); s != "" {
		if v, err := strconv.ParseUint(s, 10, 64); err == nil {
			return v
		}
		if v, err := strconv.ParseInt(s, 10, 64); err == nil {
			return uint64(v)
		}
	}
	return 1
}

func bins() map[string]string {
	return map[string]string{"jd1": os.Getenv("VH_JD1"), "jd2": os.Getenv("VH_JD2")}
}

// ---------------- worker ----------------

func work(args []string) int {
	fs := flag.NewFlagSet("work", flag.ExitOnError)
	prop := fs.String("prop", "", "")
	tier := fs.String("tier", "quick", "")
	seed := fs.Uint64("seed", 1, "")
	shard := fs.Int("shard", 0, "")
	nshards := fs.Int("nshards", 1, "")
	out := fs.String("out", "", "")
	skip := fs.String("skip", "", "comma separated stratum:index to skip")
	group := fs.String("group", "main", "main|cli|race")
	fs.Parse(args)
	p := mon.Registry[*prop]
	if p == nil {
		fmt.Fprintln(os.Stderr, "unknown property", *prop)
		return 2
	}
	skips := map[string]bool{}
	for _, s := range strings.Split(*skip, ",") {
		if s != "" {
			skips[s] = true
		}
	}
	res := mon.NewShardResult()
	curPath := filepath.Join(*out, fmt.Sprintf("%s-%d.cur", *group, *shard))
	cur, err := os.OpenFile(curPath, os.O_CREATE|os.O_WRONLY|os.O_TRUNC, 0o644)
	if err != nil {
		fmt.Fprintln(os.Stderr, err)
		return 2
	}
	workDir := filepath.Join(*out, fmt.Sprintf("tmp-%s-%d", *group, *shard))
	os.MkdirAll(workDir, 0o755)
	counter := 0
	buf := make([]byte, 0, 128)
	for si := range p.Strata {
		s := &p.Strata[si]
		if groupOf(s) != *group {
			continue
		}
		if only := os.Getenv("VH_ONLY"); only != "" && !strings.HasPrefix(s.Name, only) {
			continue // debugging aid: run only strata with this name prefix
		}
		n := s.N(mon.Tier(*tier))
		nsamples := 0
		for i := 0; i < n; i++ {
			mine := counter%*nshards == *shard
			counter++
			if !mine {
				continue
			}
			id := s.Name + ":" + strconv.Itoa(i)
			if skips[id] {
				continue
			}
			buf = append(buf[:0], id...)
			buf = append(buf, "                                        \n"...)
			cur.WriteAt(buf, 0)
			mon.RunCase(p, s, i, mon.Tier(*tier), *seed, res, &nsamples, false, workDir, bins())
		}
	}
	cur.WriteAt([]byte("DONE                                                        \n"), 0)
	cur.Close()
	os.RemoveAll(workDir)
	hb := make([]byte, 8*len(res.Hashes))
	for i, h := range res.Hashes {
		binary.LittleEndian.PutUint64(hb[8*i:], h)
	}
	if err := os.WriteFile(filepath.Join(*out, fmt.Sprintf("%s-%d.hashes", *group, *shard)), hb, 0o644); err != nil {
		fmt.Fprintln(os.Stderr, err)
		return 2
	}
	if err := mon.WriteJSON(filepath.Join(*out, fmt.Sprintf("%s-%d.json", *group, *shard)), res); err != nil {
		fmt.Fprintln(os.Stderr, err)
		return 2
	}
	return 0
}

func groupOf(s *mon.Stratum) string {
	switch {
	case s.Race:
		return "race"
	case s.CLI:
		return "cli"
	}
	return "main"
}

// ---------------- driver ----------------

type knownFinding struct {
	ID       string `json:"id"`
	Property string `json:"property"`
	Status   string `json:"status"`
	What     string `json:"what"`
}

func loadKnown() map[string]knownFinding {
	m := map[string]knownFinding{}
	b, err := os.ReadFile(filepath.Join(verifDir, "known_findings.json"))
	if err != nil {
		return m
	}
	var f struct {
		Findings []knownFinding `json:"findings"`
	}
	if json.Unmarshal(b, &f) != nil {
		return m
	}
	for _, k := range f.Findings {
		if k.Status == "open" {
			m[k.Property+"/"+k.ID] = k
		}
	}
	return m
}

type shardRun struct {
	group   string
	shard   int
	nshards int
	skips   []string
	died    []mon.Violation
	res     *mon.ShardResult
	hashes  []uint64
	err     string
}

func drive(args []string) int {
	if len(args) < 1 {
		usage()
	}
	propID := args[0]
	tier := mon.Tier(os.Getenv("VERIF_TIER"))
	if len(args) > 1 {
		tier = mon.Tier(args[1])
	}
	if tier != mon.Thorough {
		tier = mon.Quick
	}
	p := mon.Registry[propID]
	if p == nil {
		fmt.Fprintln(os.Stderr, "unknown property", propID)
		return 2
	}
	seed := envSeed()
	start := time.Now()
	workRoot := os.Getenv("VH_WORK")
	if workRoot == "" {
		workRoot = filepath.Join(verifDir, ".work", strconv.Itoa(os.Getpid()))
	}
	out := filepath.Join(workRoot, "run")
	os.MkdirAll(out, 0o755)
	self, _ := os.Executable()
	raceBin := os.Getenv("VH_RACE_BIN")

	ncpu := runtime.NumCPU()
	if v, err := strconv.Atoi(os.Getenv("VH_PROCS")); err == nil && v > 0 {
		ncpu = v
	}
	groups := map[string]int{}
	groupCases := map[string]int{}
	for i := range p.Strata {
		s := &p.Strata[i]
		groupCases[groupOf(s)] += s.N(tier)
	}
	for g, n := range groupCases {
		if n == 0 {
			continue
		}
		k := ncpu
		if g == "race" {
			k = ncpu / 2
		}
		if n < k*4 {
			k = (n + 3) / 4
		}
		if k < 1 {
			k = 1
		}
		groups[g] = k
	}
	var runs []*shardRun
	for _, g := range []string{"main", "cli", "race"} {
		for k := 0; k < groups[g]; k++ {
			runs = append(runs, &shardRun{group: g, shard: k, nshards: groups[g]})
		}
	}
	watchdog := 20 * time.Minute
	if tier == mon.Thorough {
		watchdog = 4 * time.Hour
	}
	if v, err := strconv.Atoi(os.Getenv("VH_WATCHDOG_S")); err == nil && v > 0 {
		watchdog = time.Duration(v) * time.Second
	}
	deadline := time.Now().Add(watchdog)
	inconclusive := ""
	var mu sync.Mutex
	sem := make(chan struct{}, ncpu)
	var wg sync.WaitGroup
	for _, r := range runs {
		wg.Add(1)
		go func(r *shardRun) {
			defer wg.Done()
			sem <- struct{}{}
			defer func() { <-sem }()
			bin := self
			if r.group == "race" {
				bin = raceBin
				if bin == "" {
					mu.Lock()
					inconclusive = "race worker binary not built"
					mu.Unlock()
					return
				}
			}
			for attempt := 0; attempt < 12; attempt++ {
				logPath := filepath.Join(out, fmt.Sprintf("%s-%d.log", r.group, r.shard))
				wargs := []string{"work", "-prop", propID, "-tier", string(tier), "-seed", strconv.FormatUint(seed, 10),
					"-shard", strconv.Itoa(r.shard), "-nshards", strconv.Itoa(r.nshards), "-out", out, "-group", r.group,
					"-skip", strings.Join(r.skips, ",")}
				var cmd *exec.Cmd
				if r.group == "race" {
					cmd = exec.Command(bin, wargs...)
					cmd.Env = append(os.Environ(), "GORACE=halt_on_error=0 exitcode=0 log_path="+filepath.Join(out, fmt.Sprintf("racelog-%d", r.shard)))
				} else {
					// contain runaway allocations: address-space limit
					sh := "ulimit -v 6000000; exec \"$0\" \"$@\""
					cmd = exec.Command("sh", append([]string{"-c", sh, bin}, wargs...)...)
				}
				if cmd.Env == nil {
					cmd.Env = os.Environ()
				}
				if r.group != "race" {
					// one busy goroutine per worker: keep the Go runtime from spinning up 16 GC threads in each of 16 processes
					cmd.Env = append(cmd.Env, "GOMAXPROCS=2")
				}
				lf, _ := os.Create(logPath)
				cmd.Stdout = lf
				cmd.Stderr = lf
				cmd.SysProcAttr = &syscall.SysProcAttr{Setpgid: true}
				if err := cmd.Start(); err != nil {
					r.err = err.Error()
					lf.Close()
					return
				}
				done := make(chan error, 1)
				go func() { done <- cmd.Wait() }()
				var werr error
				select {
				case werr = <-done:
				case <-time.After(time.Until(deadline)):
					syscall.Kill(-cmd.Process.Pid, syscall.SIGQUIT)
					time.Sleep(2 * time.Second)
					syscall.Kill(-cmd.Process.Pid, syscall.SIGKILL)
					<-done
					lf.Close()
					mu.Lock()
					inconclusive = fmt.Sprintf("watchdog (%v) fired on %s shard %d", watchdog, r.group, r.shard)
					mu.Unlock()
					return
				}
				lf.Close()
				if werr == nil {
					break
				}
				// the child died: attribute to the journalled case
				curb, _ := os.ReadFile(filepath.Join(out, fmt.Sprintf("%s-%d.cur", r.group, r.shard)))
				cur := strings.TrimSpace(string(curb))
				logb, _ := os.ReadFile(logPath)
				tail := string(logb)
				if len(tail) > 3000 {
					tail = tail[:3000]
				}
				if cur == "" || cur == "DONE" {
					r.err = fmt.Sprintf("worker failed (%v) outside any case: %s", werr, tail)
					return
				}
				parts := strings.SplitN(cur, ":", 2)
				idx, _ := strconv.Atoi(parts[1])
				r.died = append(r.died, mon.Violation{Stratum: parts[0], Index: idx,
					Reason: fmt.Sprintf("worker process died (%v) while running this case", werr),
					Detail: map[string]any{"output": tail}})
				r.skips = append(r.skips, cur)
			}
			rb, err := os.ReadFile(filepath.Join(out, fmt.Sprintf("%s-%d.json", r.group, r.shard)))
			if err != nil {
				r.err = "no result from worker: " + err.Error()
				return
			}
			r.res = mon.NewShardResult()
			if err := json.Unmarshal(rb, r.res); err != nil {
				r.err = "bad result from worker: " + err.Error()
				return
			}
			hb, _ := os.ReadFile(filepath.Join(out, fmt.Sprintf("%s-%d.hashes", r.group, r.shard)))
			r.hashes = make([]uint64, len(hb)/8)
			for i := range r.hashes {
				r.hashes[i] = binary.LittleEndian.Uint64(hb[8*i:])
			}
		}(r)
	}
	wg.Wait()

	// ---- merge ----
	total := mon.NewShardResult()
	var hashes []uint64
	raceReports := 0
	for _, r := range runs {
		if r.err != "" && inconclusive == "" {
			inconclusive = r.err
		}
		for _, v := range r.died {
			total.Violations = append(total.Violations, v)
			total.NViolations++
		}
		if r.res == nil {
			continue
		}
		total.Evaluations += r.res.Evaluations
		addAll(total.PerStratum, r.res.PerStratum)
		addAll(total.Features, r.res.Features)
		addAll(total.Skips, r.res.Skips)
		addAll(total.Inconclusive, r.res.Inconclusive)
		addAll(total.VioByStratum, r.res.VioByStratum)
		addAll(total.VioByReason, r.res.VioByReason)
		addAll(total.Known, r.res.Known)
		for k, v := range r.res.KnownFirst {
			if old, ok := total.KnownFirst[k]; !ok || v.Stratum < old.Stratum || (v.Stratum == old.Stratum && v.Index < old.Index) {
				total.KnownFirst[k] = v
			}
		}
		for set, m := range r.res.Extra {
			if total.Extra[set] == nil {
				total.Extra[set] = map[string]int{}
			}
			addAll(total.Extra[set], m)
		}
		total.Violations = append(total.Violations, r.res.Violations...)
		total.NViolations += r.res.NViolations
		if len(total.Samples) < 6 {
			total.Samples = append(total.Samples, r.res.Samples...)
		}
		hashes = append(hashes, r.hashes...)
	}
	// race detector reports (written by the race runtime, one file per pid)
	raceFiles, _ := filepath.Glob(filepath.Join(out, "racelog-*"))
	raceStacks := map[string]int{}
	for _, f := range raceFiles {
		b, _ := os.ReadFile(f)
		blocks := strings.Split(string(b), "WARNING: DATA RACE")
		for _, blk := range blocks[1:] {
			raceReports++
			raceStacks[raceKey(blk)]++
			if len(total.Violations) < 40 && raceStacks[raceKey(blk)] == 1 {
				if len(blk) > 3000 {
					blk = blk[:3000]
				}
				total.Violations = append(total.Violations, mon.Violation{Stratum: "race", Index: -1,
					Reason: "race detector report: a read-only API call wrote to shared inputs", Detail: map[string]any{"report": blk}})
			}
		}
	}
	total.NViolations += raceReports
	sort.Slice(hashes, func(i, j int) bool { return hashes[i] < hashes[j] })
	distinct := 0
	for i, h := range hashes {
		if i == 0 || h != hashes[i-1] {
			distinct++
		}
	}
	sort.SliceStable(total.Violations, func(i, j int) bool {
		a, b := total.Violations[i], total.Violations[j]
		if a.Stratum != b.Stratum {
			return a.Stratum < b.Stratum
		}
		return a.Index < b.Index
	})

	// ---- known findings ----
	known := loadKnown()
	replayDir := filepath.Join(verifDir, "evidence", "replays")
	os.MkdirAll(replayDir, 0o755)
	old, _ := filepath.Glob(filepath.Join(replayDir, propID+"-*.json"))
	for _, f := range old {
		os.Remove(f)
	}
	writeReplay := func(v mon.Violation, tag string) string {
		name := fmt.Sprintf("%s-%s-s%d-%s-%s-%d.json", propID, tier, seed, tag, sanitize(v.Stratum), v.Index)
		path := filepath.Join(replayDir, name)
		mon.WriteJSON(path, mon.Replay{Property: propID, Tier: tier, Seed: seed, Stratum: v.Stratum, Index: v.Index,
			Reason: v.Reason, Known: v.Known, Detail: v.Detail, How: "cd /verif && ./check " + propID + " --replay " + path})
		return path
	}
	knownObserved := map[string]int{}
	var lines []string
	for _, id := range mon.SortedKeys(total.Known) {
		n := total.Known[id]
		first := total.KnownFirst[id]
		if k, ok := known[propID+"/"+id]; ok {
			path := writeReplay(first, id)
			lines = append(lines, fmt.Sprintf("KNOWN-FINDING: property=%s %s (id=%s n=%d this run, first=%s)", propID, k.What, id, n, path))
			knownObserved[id] = n
		} else {
			// classified by the monitor but not listed as open: a violation
			first.Reason = "[" + id + " not listed as an open known finding] " + first.Reason
			total.Violations = append([]mon.Violation{first}, total.Violations...)
			total.NViolations += n
		}
	}
	var vioPaths []string
	seenClass := map[string]int{}
	for _, v := range total.Violations {
		cls := v.Stratum + "|" + firstWords(v.Reason)
		seenClass[cls]++
		if seenClass[cls] > 2 || len(vioPaths) >= 40 {
			continue
		}
		vioPaths = append(vioPaths, writeReplay(v, "v"))
	}

	// ---- floors ----
	missed := []string{}
	for _, f := range mon.SortedKeys(p.Floors) {
		if strings.HasPrefix(f, "#") {
			if len(total.Extra[f[1:]]) < p.Floors[f] {
				missed = append(missed, fmt.Sprintf("%s=%d<%d", f, len(total.Extra[f[1:]]), p.Floors[f]))
			}
			continue
		}
		if total.Features[f] < p.Floors[f] {
			missed = append(missed, fmt.Sprintf("%s=%d<%d", f, total.Features[f], p.Floors[f]))
		}
	}
	if distinct < 2 {
		missed = append(missed, fmt.Sprintf("distinct_nontrivial=%d", distinct))
	}
	if len(total.Inconclusive) > 0 && inconclusive == "" {
		inconclusive = "cases that could not be judged: " + fmt.Sprint(total.Inconclusive)
	}
	if len(missed) > 0 && inconclusive == "" && total.NViolations == 0 {
		inconclusive = "coverage floor not reached: " + strings.Join(missed, ",")
	}

	// ---- evidence ----
	wall := time.Since(start).Seconds()
	var strata []map[string]any
	allExh := true
	for i := range p.Strata {
		s := &p.Strata[i]
		exh := s.Exhaustive != nil && s.Exhaustive(tier)
		if !exh {
			allExh = false
		}
		strata = append(strata, map[string]any{"name": s.Name, "cases_planned": s.N(tier), "cases_run": total.PerStratum[s.Name], "exhaustive": exh, "group": groupOf(s)})
	}
	samples := total.Samples
	if len(samples) > 6 {
		samples = samples[:6]
	}
	if len(samples) == 0 {
		samples = []any{"no sample recorded"}
	}
	cov := map[string]any{
		"evaluations":         total.Evaluations,
		"distinct_nontrivial": distinct,
		"rule":                p.Rule,
		"samples":             samples,
		"exhaustive":          allExh,
		"strata":              strata,
		"features_observed":   total.Features,
		"skips_by_reason":     total.Skips,
		"known_findings_observed": knownObserved,
		"floors":              p.Floors,
		"floors_missed":       missed,
		"worker_processes":    len(runs),
		"child_deaths":        countDeaths(runs),
		"verdict":             verdict(total.NViolations, inconclusive),
		"unjudged_cases":        total.Inconclusive,
		"violations_by_stratum": total.VioByStratum,
		"violations_by_reason":  total.VioByReason,
	}
	for set, m := range total.Extra {
		cov[set] = m
	}
	if raceFiles != nil || groups["race"] > 0 {
		cov["race_detector_reports"] = raceReports
		cov["race_detector_distinct_stacks"] = len(raceStacks)
	}
	ev := map[string]any{
		"property_id": propID, "tier": string(tier), "seed": seed, "level": "exploration",
		"coverage": cov, "assumptions": p.Assumptions, "wall_s": round2(wall), "violations": total.NViolations,
	}
	os.MkdirAll(filepath.Join(verifDir, "evidence"), 0o755)
	if err := mon.WriteJSON(filepath.Join(verifDir, "evidence", propID+".json"), ev); err != nil {
		fmt.Fprintln(os.Stderr, "cannot write evidence:", err)
	}

	for _, l := range lines {
		fmt.Println(l)
	}
	if total.NViolations > 0 {
		for i, v := range total.Violations {
			if i >= 5 {
				break
			}
			fmt.Printf("  witness %s:%d  %s\n", v.Stratum, v.Index, oneLine(v.Reason))
		}
		fmt.Printf("VIOLATION property=%s replay=%s\n", propID, vioPaths[0])
		fmt.Printf("FAILED property=%s tier=%s seed=%d violations=%d evaluations=%d wall=%.1fs\n", propID, tier, seed, total.NViolations, total.Evaluations, wall)
		return 1
	}
	if inconclusive != "" {
		fmt.Printf("INCONCLUSIVE property=%s reason=%s\n", propID, oneLine(inconclusive))
		return 3
	}
	fmt.Printf("OK property=%s tier=%s seed=%d evaluations=%d distinct_nontrivial=%d known=%d wall=%.1fs\n", propID, tier, seed, total.Evaluations, distinct, len(knownObserved), wall)
	return 0
}

func verdict(nv int, inconclusive string) string {
	switch {
	case nv > 0:
		return "violated"
	case inconclusive != "":
		return "inconclusive: " + inconclusive
	}
	return "held on what was observed"
}

func countDeaths(runs []*shardRun) int {
	n := 0
	for _, r := range runs {
		n += len(r.died)
	}
	return n
}

func raceKey(blk string) string {
	// de-duplicate by the jd frames (file:line stripped of line numbers)
	var frames []string
	for _, l := range strings.Split(blk, "\n") {
		l = strings.TrimSpace(l)
		if strings.HasPrefix(l, "github.com/josephburnett/jd") {
			if i := strings.Index(l, "("); i > 0 {
				l = l[:i]
			}
			frames = append(frames, l)
			if len(frames) >= 4 {
				break
			}
		}
	}
	return strings.Join(frames, "|")
}

func firstWords(s string) string {
	if i := strings.Index(s, ":"); i > 0 {
		s = s[:i]
	}
	if len(s) > 60 {
		s = s[:60]
	}
	return s
}

func addAll(dst, src map[string]int) {
	for k, v := range src {
		dst[k] += v
	}
}

func sanitize(s string) string {
	return strings.Map(func(r rune) rune {
		if r >= 'a' && r <= 'z' || r >= 'A' && r <= 'Z' || r >= '0' && r <= '9' || r == '-' || r == '_' {
			return r
		}
		return '_'
	}, s)
}

func oneLine(s string) string {
	s = strings.ReplaceAll(s, "\n", " | ")
	if len(s) > 300 {
		s = s[:300] + "..."
	}
	return s
}

func round2(f float64) float64 { return float64(int(f*100)) / 100 }

// ---------------- replay ----------------

func replay(args []string) int {
	if len(args) < 1 {
		usage()
	}
	b, err := os.ReadFile(args[0])
	if err != nil {
		fmt.Fprintln(os.Stderr, err)
		return 2
	}
	var rp mon.Replay
	if err := json.Unmarshal(b, &rp); err != nil {
		fmt.Fprintln(os.Stderr, err)
		return 2
	}
	p := mon.Registry[rp.Property]
	if p == nil {
		fmt.Fprintln(os.Stderr, "unknown property", rp.Property)
		return 2
	}
	if rp.Stratum == "race" {
		fmt.Println("race-detector reports are replayed by re-running the check (the report in the replay file names both stacks)")
		return 0
	}
	for i := range p.Strata {
		s := &p.Strata[i]
		if s.Name != rp.Stratum {
			continue
		}
		fmt.Printf("replaying %s %s:%d (tier=%s seed=%d)\n", rp.Property, rp.Stratum, rp.Index, rp.Tier, rp.Seed)
		res := mon.NewShardResult()
		ns := 0
		workDir, _ := os.MkdirTemp(os.Getenv("VH_WORK"), "replay")
		defer os.RemoveAll(workDir)
		mon.RunCase(p, s, rp.Index, rp.Tier, rp.Seed, res, &ns, true, workDir, bins())
		known := loadKnown()
		unlisted := 0
		for id := range res.Known {
			if _, ok := known[rp.Property+"/"+id]; !ok {
				unlisted++
			}
		}
		if res.NViolations > 0 || unlisted > 0 {
			fmt.Printf("VIOLATION property=%s replay=%s\n", rp.Property, args[0])
			return 1
		}
		for id := range res.Known {
			fmt.Printf("KNOWN-FINDING: property=%s %s (id=%s)\n", rp.Property, known[rp.Property+"/"+id].What, id)
		}
		fmt.Println("case held on the current tree")
		return 0
	}
	fmt.Fprintln(os.Stderr, "unknown stratum", rp.Stratum)
	return 2
}
